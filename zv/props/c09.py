"""C09 - truncation, size lies and checksum damage are reported, never accepted.

Theorems (coq/Props/Properties_C09.v): prefix stability of the reference decoder R, "no proper prefix of a
complete frame is accepted", content size / checksum enforced.  Tie: for a catalogue of frame layouts, EVERY cut
point k is fed to libzstd (one-shot, streaming under 3 segmentations, buffer-less) and to the extracted R:
none may report success; then trailing garbage, every single-bit flip of the stored checksum, sampled bit
flips anywhere (success is allowed only with the original bytes), content-size lies, and pledged-size lies."""
import random
import struct

from .. import codec, core


def py_frame(rng, blocks, fcs_mode, single, dictid_bytes=0, checksum=False, window_log=10):
    """hand-built frame of raw/RLE blocks. fcs_mode in {None,1,2,4,8}; returns (frame, content)"""
    content = b"".join(b[1] if b[0] == "raw" else bytes([b[1]]) * b[2] for b in blocks)
    n = len(content)
    fcs_flag = {None: 0, 1: 0, 2: 1, 4: 2, 8: 3}[fcs_mode]
    did_flag = {0: 0, 1: 1, 2: 2, 4: 3}[dictid_bytes]
    fhd = (fcs_flag << 6) | ((1 if single else 0) << 5) | ((1 if checksum else 0) << 2) | did_flag
    out = bytearray(struct.pack("<I", 0xFD2FB528))
    out.append(fhd)
    if not single:
        out.append((window_log - 10) << 3)
    out += (0).to_bytes(dictid_bytes, "little")
    if fcs_mode == 1:
        out += n.to_bytes(1, "little")
    elif fcs_mode == 2:
        out += (n - 256).to_bytes(2, "little")
    elif fcs_mode in (4, 8):
        out += n.to_bytes(fcs_mode, "little")
    for i, b in enumerate(blocks):
        last = 1 if i == len(blocks) - 1 else 0
        if b[0] == "raw":
            out += (last | (0 << 1) | (len(b[1]) << 3)).to_bytes(3, "little") + b[1]
        else:
            out += (last | (1 << 1) | (b[2] << 3)).to_bytes(3, "little") + bytes([b[1]])
    return bytes(out), content


def catalogue(ctx, rng, cd):
    """list of (name, frame, content) of complete single frames with varied layouts"""
    cat = []
    # hand-built raw/RLE layouts: every header form
    for fcs_mode, single in [(None, False), (1, True), (2, False), (2, True), (4, False), (4, True), (8, False), (8, True)]:
        for did in (0, 1, 2, 4):
            if did and rng.random() < 0.6:
                continue
            n = rng.choice([300, 400]) if fcs_mode == 2 else rng.choice([0, 1, 5, 40, 200])
            if fcs_mode == 1 and n > 255:
                n = 200
            blocks = []
            left = n
            while left > 0:
                k = min(left, rng.choice([1, 3, 17, 100, 300]))
                blocks.append(("raw", rng.randbytes(k)) if rng.random() < 0.6 else ("rle", rng.randrange(256), k))
                left -= k
            if rng.random() < 0.5 or not blocks:
                blocks.append(("raw", b""))       # empty last block
            f, x = py_frame(rng, blocks, fcs_mode, single, did)
            cat.append(("py fcs=%s ss=%d did=%d nb=%d" % (fcs_mode, single, did, len(blocks)), f, x))
    # real compressor output: compressed blocks, checksums, multi-block, magic variations
    reqs = []
    for i in range(14 if ctx.quick else 60):
        kind = rng.choice(["text", "lowent", "rep3", "selfcopy", "zeros", "random", "period"])
        n = rng.choice([1, 10, 60, 150, 300, 700, 2500])
        x = codec.gen_input(rng, kind, n)
        p = {"level": rng.choice([1, 3, 19]), "checksum": rng.choice([0, 1, 1]), "contentSize": rng.choice([0, 1, 1])}
        if n >= 2000:
            p["maxBlockSize"] = 1024
        if rng.random() < 0.3:
            p["windowLog"] = 10
        reqs.append(("z%d" % i, x, p))
    out, errs = cd.impl(["C %s compress2 %s - - %s" % (i, codec.params_str(p), codec.hx(x)) for i, x, p in reqs])
    for i, x, p in reqs:
        r = codec.parse_ok(out.get(i, "ERR missing"))
        if r[0] == "OK":
            cat.append(("zstd %s n=%d" % (p, len(x)), r[1], x))
    return cat


# ---------------------------------------------------------------------------------------------------------------
# round 2: legacy frames (v0.5 / v0.6 / v0.7, library built with ZSTD_LEGACY_SUPPORT=5), more decoding entry points,
# multi-frame inputs whose LAST frame is damaged, decoder histories, and the compression side (every way of feeding
# and ending a frame under a pledged source size)

KEY_V07_CK = "C09-legacy-v07-oneshot-ignores-checksum"
KEY_LEGACY_FCS = "C09-legacy-stream-ignores-content-size"
KEY_STABLEIN = "C09-stablein-deferred-pledge-overridden"
LEGACY_PATHS = ["oneshot", "dctx", "stream:0:0", "stream:7:3", "stream:0:1", "stableout:0"]   # first segment >= 4 bytes: the legacy
# detection of ZSTD_decompressStream looks at the current input only (a valid legacy frame fed 1 byte first is refused: not C09)


def mk_v07(blocks, declared, direct, checksum=None, fcsid=None):
    """v0.7 frame of raw blocks. declared: content size written in the header (None: no field); checksum: 22-bit value or None"""
    out = bytearray(struct.pack("<I", 0xFD2FB527))
    if declared is None:
        fcsid = 0
    elif fcsid is None:
        fcsid = 0 if (direct and declared < 256) else (1 if 256 <= declared < 65536 + 256 else 2)
    out.append((fcsid << 6) | ((1 if direct else 0) << 5) | ((1 if checksum is not None else 0) << 2))
    if not direct:
        out.append(0)
    if fcsid == 0:
        if direct:
            out.append(declared)
    elif fcsid == 1:
        out += (declared - 256).to_bytes(2, "little")
    elif fcsid == 2:
        out += declared.to_bytes(4, "little")
    else:
        out += declared.to_bytes(8, "little")
    for b in blocks:
        out += bytes([(1 << 6) | (len(b) >> 16), (len(b) >> 8) & 255, len(b) & 255]) + b
    ck = checksum or 0
    out += bytes([(3 << 6) | ((ck >> 16) & 0x3F), (ck >> 8) & 255, ck & 255])
    return bytes(out)


def mk_v06(blocks, declared, fcsid=None):
    out = bytearray(struct.pack("<I", 0xFD2FB526))
    if declared is None:
        fcsid = 0
    elif fcsid is None:
        fcsid = 1 if declared < 256 else (2 if declared < 65536 + 256 else 3)
    out.append(fcsid << 6)
    if fcsid == 1:
        out.append(declared)
    elif fcsid == 2:
        out += (declared - 256).to_bytes(2, "little")
    elif fcsid == 3:
        out += declared.to_bytes(8, "little")
    for b in blocks:
        out += bytes([(1 << 6) | (len(b) >> 16), (len(b) >> 8) & 255, len(b) & 255]) + b
    out += bytes([3 << 6, 0, 0])
    return bytes(out)


def legacy_samples():
    """the v0.5 / v0.6 / v0.7 frames of /repo/tests/legacy.c (compressed blocks) -> [(name, frame, content)]"""
    import os
    import re
    try:
        src = open(os.path.join(core.REPO, "tests", "legacy.c")).read()
    except OSError:
        return []
    m = re.search(r'const char\* const COMPRESSED =\s*((?:\s*"(?:\\x[0-9A-Fa-f]{2})+"\s*)+);', src)
    e = re.search(r'const char\* const EXPECTED =\s*((?:\s*"(?:[^"\\]|\\.)*"\s*)+);', src)
    if not m or not e:
        return []
    data = bytes(int(h, 16) for h in re.findall(r"\\x([0-9A-Fa-f]{2})", m.group(1)))
    idx = [i for i in range(len(data) - 3) if data[i + 1:i + 4] == b"\xb5\x2f\xfd" and data[i] in (0x24, 0x25, 0x26, 0x27, 0x28)]
    frames = [data[a:b] for a, b in zip(idx, idx[1:] + [len(data)])]
    text = "".join(re.findall(r'"((?:[^"\\]|\\.)*)"', e.group(1))).replace("\\n", "\n").encode("utf-8")
    if len(text) % 5:
        return []
    one = text[: len(text) // 5]
    return [("legacy.c v0.%d" % (f[0] - 0x20), f, one) for f in frames if f[0] in (0x25, 0x26, 0x27)]


def round2(ctx, rng, cd, cat):
    import time
    from .. import streamtie as st
    t0 = time.time()

    def mark(what):
        core.log("c09 round2 %s at +%.1fs" % (what, time.time() - t0))
    lines, meta = [], {}
    repeats = {}

    def keyed(rep, what, key):
        """one replay file per finding key (the first, i.e. smallest, case); the others are counted in the evidence notes"""
        if key is not None:
            repeats[key] = repeats.get(key, 0) + 1
            if repeats[key] > 1:
                return
        ctx.violation(rep, key=key, what=what)

    def add(cid, data, x, what, layout, paths, flags="-", key=None, cap=None):
        meta[cid] = (data, x, what, layout, key)
        c = cap if cap is not None else (len(x) + 64 if x is not None else 4096)
        for pth in paths:
            lines.append("D %s|%s %s %s - %s %d" % (cid, pth, pth, flags, codec.hx(data), c))

    # ---- (a) legacy frames ----
    leg = []
    for j in range(6 if ctx.quick else 120):
        nb = rng.choice([1, 1, 2, 3])
        blocks = [rng.randbytes(rng.choice([1, 5, 12, 40, 300])) for _ in range(nb)]
        x = b"".join(blocks)
        if j % 2 == 0:
            direct = rng.random() < 0.5 and len(x) < 256
            withck = rng.random() < 0.7
            ck = (st.xxh64(x) >> 11) & 0x3FFFFF if withck else None
            fcsid = rng.choice([None, None, 2, 3])
            leg.append(("v0.7 raw nb=%d direct=%d ck=%d fcsid=%s" % (nb, direct, withck, fcsid), 7, blocks, x, direct, ck, fcsid))
        else:
            fcsid = rng.choice([None, None, 3])
            leg.append(("v0.6 raw nb=%d fcsid=%s" % (nb, fcsid), 6, blocks, x, False, None, fcsid))
    for li, (name, ver, blocks, x, direct, ck, fcsid) in enumerate(leg):
        mk = (lambda decl, c=ck: mk_v07(blocks, decl, direct, c, fcsid)) if ver == 7 else (lambda decl, c=None: mk_v06(blocks, decl, fcsid))
        f = mk(len(x))
        add("G%d.full" % li, f, x, "complete", name, LEGACY_PATHS)
        for k in range(1, len(f)):
            add("G%d.cut%d" % (li, k), f[:k], None, "prefix", name, LEGACY_PATHS if k >= 4 else ["oneshot", "dctx", "stream:0:0"])
        for g in (b"\x00", b"ab", b"\x28\xb5\x2f", f[:4], f[:7]):
            add("G%d.tail%s" % (li, g.hex()), f + g, None, "garbage", name, ["oneshot", "dctx"])
        # declared-size lies (a declared 0 means "unknown" in the legacy decoders: not a lie they can see)
        for decl in sorted({len(x) - 1, len(x) + 1, len(x) + len(blocks[-1]), 2 * len(x), len(x) + 256, 255, 256}):
            if decl <= 0 or decl == len(x):
                continue
            try:
                d = mk(decl)
            except (OverflowError, ValueError):
                continue
            add("G%d.fcs%d" % (li, decl), d, x, "fcslie", name, LEGACY_PATHS, key=KEY_LEGACY_FCS, cap=max(len(x), decl) + 64)
        if ver == 7 and ck is not None:
            for bit in range(22):
                add("G%d.ck%d" % (li, bit), mk(len(x), ck ^ (1 << bit)), x, "ckflip", name, LEGACY_PATHS, key=KEY_V07_CK)
            for j in range(10):
                d = bytearray(f)
                pos = rng.randrange(len(f) - len(x) - 3 * len(blocks) + 0, len(f) - 3)   # somewhere behind the header
                d[pos] ^= 1 << rng.randrange(8)
                add("G%d.flip%d" % (li, j), bytes(d), x, "flip", name, LEGACY_PATHS, key=KEY_V07_CK)
    for li, (name, f, x) in enumerate(legacy_samples()):
        add("H%d.full" % li, f, x, "complete", name, LEGACY_PATHS)
        for k in range(1, len(f)):
            add("H%d.cut%d" % (li, k), f[:k], None, "prefix", name, LEGACY_PATHS if k >= 4 else ["oneshot", "stream:0:0"])
        for g in (b"\x00", b"\x28\xb5\x2f\xfd", f[:5]):
            add("H%d.tail%s" % (li, g.hex()), f + g, None, "garbage", name, ["oneshot"])
        # a legacy frame between / behind zstd frames: the cut stays inside the last frame
        z = cat[li % len(cat)]
        for k in sorted(set(rng.sample(range(1, len(f)), 12))):
            add("H%d.zcut%d" % (li, k), z[1] + f[:k], None, "prefix", z[0] + " + " + name, ["oneshot", "dctx"], cap=len(z[2]) + len(x) + 64)
        for k in sorted(set(rng.sample(range(1, len(z[1])), min(12, len(z[1]) - 1)))):
            add("H%d.lcut%d" % (li, k), f + z[1][:k], None, "prefix", name + " + " + z[0], ["oneshot", "dctx"], cap=len(z[2]) + len(x) + 64)

    prc_lie = []
    # ---- (a') hand-built frames WITH a checksum (the catalogue's hand-built layouts have none): empty content, empty last block,
    # RLE only, several blocks; every cut, every bit of the stored checksum, declared-size lies, on every path ----
    ALLP = ["oneshot", "dctx", "stream:1:0", "stream:7:3", "stream:0:0", "stream:0:1", "stableout:0", "continue"]
    pyck = []
    for j, (blocks, fcs_mode, single) in enumerate([
            ([("raw", b"")], 1, True), ([("raw", b"")], None, False), ([("rle", 7, 0)], 4, False),
            ([("raw", rng.randbytes(5))], 1, True), ([("rle", 65, 40), ("raw", b"")], 8, False),
            ([("raw", rng.randbytes(33)), ("rle", 0, 300), ("raw", rng.randbytes(2))], 2, rng.random() < 0.5),
            ([("rle", 200, 1)], None, False), ([("raw", rng.randbytes(64)), ("raw", rng.randbytes(31))], 4, True)]):
        f, x = py_frame(rng, blocks, fcs_mode, single, 0, checksum=True)
        pyck.append(("pyck fcs=%s ss=%d nb=%d n=%d" % (fcs_mode, single, len(blocks), len(x)), f + struct.pack("<I", st.xxh64(x) & 0xFFFFFFFF), x))
    prc = []
    for li, (name, f, x) in enumerate(pyck):
        add("Y%d.full" % li, f, x, "complete", name, ALLP)
        prc.append(("Y%d.full" % li, "nostrict", None, f))
        for k in range(1, len(f)):
            add("Y%d.cut%d" % (li, k), f[:k], None, "prefix", name, ALLP)
            prc.append(("Y%d.cut%d" % (li, k), "nostrict", None, f[:k]))
        for bit in range(32):
            d = bytearray(f)
            d[len(f) - 4 + bit // 8] ^= 1 << (bit % 8)
            add("Y%d.ck%d" % (li, bit), bytes(d), x, "ckflip", name, ALLP)
            prc.append(("Y%d.ck%d" % (li, bit), "nostrict", None, bytes(d)))
        add("Y%d.nock" % li, f[:-4] + bytes(4), x, "complete", name + " nocheck", ["dctx", "stream:1:0", "stream:0:0", "continue"], flags=codec.dparams_str({"forceIgnoreChecksum": 1}))

    # ---- (a'') declared-content-size lies for EVERY field width (1-byte single-segment form, the 2-byte +256 form, 4, 8 bytes), windowed and
    # single-segment: too small, too large, 0 with non-empty blocks, off by exactly the last block, wrap-arounds of the narrower fields ----
    def lie_frame(blocks, fcs_mode, single, declared, window_log):
        fcs_flag = {1: 0, 2: 1, 4: 2, 8: 3}[fcs_mode]
        o = bytearray(struct.pack("<I", 0xFD2FB528))
        o.append((fcs_flag << 6) | ((1 if single else 0) << 5))
        if not single:
            o.append((window_log - 10) << 3)
        o += (declared - 256 if fcs_mode == 2 else declared).to_bytes(fcs_mode, "little")
        for i, b in enumerate(blocks):
            last = 1 if i == len(blocks) - 1 else 0
            o += ((last | (len(b[1]) << 3)).to_bytes(3, "little") + b[1]) if b[0] == "raw" else ((last | 2 | (b[2] << 3)).to_bytes(3, "little") + bytes([b[1]]))
        return bytes(o)
    fits = {1: lambda d: 0 <= d < 256, 2: lambda d: 256 <= d < 65536 + 256, 4: lambda d: 0 <= d < 2 ** 32, 8: lambda d: 0 <= d < 2 ** 64}
    LP = ["oneshot", "dctx", "stream:1:0", "stream:7:3", "stream:0:0", "stream:0:1", "stableout:0", "stableout:2", "continue"]
    nl = 0
    for it in range(12 if ctx.quick else 400):
        blocks = []
        for j in range(rng.choice([1, 1, 2, 3, 5])):
            k = rng.choice([0, 1, 3, 17, 100, 300, 1024])
            blocks.append(("raw", rng.randbytes(k)) if rng.random() < 0.5 else ("rle", rng.randrange(256), k))
        if rng.random() < 0.3:
            blocks.append(("raw", b""))
        x = b"".join(b[1] if b[0] == "raw" else bytes([b[1]]) * b[2] for b in blocks)
        n = len(x)
        lastn = len(blocks[-1][1]) if blocks[-1][0] == "raw" else blocks[-1][2]
        for mode in (1, 2, 4, 8):
            for single in (True, False):
                if mode == 1 and not single:
                    continue
                for d in sorted({n - 1, n + 1, 0, n + lastn, n - lastn, 2 * n, n + 256, n - 256, n + 65536, n + 2 ** 32, n + 1024, 255, 256, 65535 + 256, n + 128 * 1024}):
                    if d == n or not fits[mode](d):
                        continue
                    f = lie_frame(blocks, mode, single, d, rng.choice([10, 11, 17]))
                    nl += 1
                    cap = max(n, d if d < (1 << 20) else 0) + 1100
                    add("Z%d" % nl, f, x, "fcslie", "py-lie fcs=%d ss=%d declared=%d real=%d" % (mode, single, d, n), LP, cap=cap)
                    if nl % 3 == 0:
                        add("Zm%d" % nl, f[4:], x, "fcslie", "py-lie magicless fcs=%d ss=%d declared=%d real=%d" % (mode, single, d, n), ["dctx", "stream:1:0", "stream:0:0", "continue"], flags=codec.dparams_str({"format": 1}), cap=cap)
                    if nl % (40 if ctx.quick else 10) == 0:
                        prc_lie.append(("Z%d" % nl, "nostrict", None, f))

    # ---- (b) more decoding entry points on the layout catalogue: every cut point ----
    XP = ["dctx", "usingDict", "ddict", "stableout:0", "stableout:3", "stream:0:1", "stream:3:1"]
    ML = codec.dparams_str({"format": 1})
    sk = lambda payload, v=0: (0x184D2A50 + v).to_bytes(4, "little") + len(payload).to_bytes(4, "little") + payload
    rsub = set(rng.sample(range(len(cat)), min(len(cat), 5 if ctx.quick else 40)))
    rcases = []
    for li, (name, f, x) in enumerate(cat):
        big = len(f) > 320
        cuts = range(1, len(f)) if (not big or not ctx.quick) else sorted(set(list(range(1, 24)) + rng.sample(range(24, len(f)), 40) + list(range(len(f) - 8, len(f)))))
        add("X%d.full" % li, f, x, "complete", name, XP)
        for k in cuts:
            add("X%d.cut%d" % (li, k), f[:k], None, "prefix", name, XP)
        g = f[4:]       # the same frame without its magic number, decoded in ZSTD_f_zstd1_magicless
        MP = ["dctx", "stream:1:0", "stream:0:0", "stream:7:3", "continue", "stableout:0"]
        add("M%d.full" % li, g, x, "complete", name + " magicless", MP, flags=ML)
        mcuts = list(range(1, len(g))) if not big else [c - 4 for c in cuts if c > 4]
        for k in mcuts:
            add("M%d.cut%d" % (li, k), g[:k], None, "prefix", name + " magicless", MP, flags=ML)
        if li in rsub:
            rcases.append(("M%d.full" % li, "nostrict,magicless", None, g))
            for k in rng.sample(mcuts, min(len(mcuts), 30)):
                rcases.append(("M%d.cut%d" % (li, k), "nostrict,magicless", None, g[:k]))
        if big:
            continue
        # several frames in one call, only the LAST one cut / followed by stray bytes or by a cut skippable frame
        lead = cat[(li + 1) % len(cat)]
        pre = lead[1] if len(lead[1]) <= 320 else f
        prex = lead[2] if len(lead[1]) <= 320 else x
        for k in range(1, len(f)):
            add("T%d.cut%d" % (li, k), pre + f[:k], None, "prefix", "2 frames, last cut: " + name, ["oneshot", "dctx", "usingDict"], cap=len(prex) + len(x) + 64)
            if li in rsub:
                rcases.append(("T%d.cut%d" % (li, k), "nostrict", None, pre + f[:k]))
        for tail in (sk(b"abc")[:4], sk(b"abc")[:7], sk(b"abc")[:9], sk(b"")[:5], b"\x00", b"\x28\xb5", b"\x28\xb5\x2f\xfd", b"\x28\xb5\x2f\xfd\x00"):
            add("T%d.tail%s" % (li, tail.hex()), f + tail, None, "garbage", name, ["oneshot", "dctx", "usingDict"])
            add("T%d.sktail%s" % (li, tail.hex()), f + sk(b"xy", 7) + tail, None, "garbage", name + " + skippable", ["oneshot", "dctx"])
            if li in rsub:
                rcases.append(("T%d.tail%s" % (li, tail.hex()), "nostrict", None, f + tail))
    # ---- (b') frames that need a dictionary (loaded, prefix, CDict, raw content), decoded WITH it through every dictionary entry point:
    # every cut, every checksum bit; with the wrong / no dictionary a checksummed frame must not come back altered ----
    dicts = [codec.gen_input(rng, "text", 3000), rng.randbytes(500)]
    dreq = []
    for i in range(4 if ctx.quick else 30):
        dc = dicts[i % 2]
        x = (dc[100:400] + codec.gen_input(rng, "text", rng.choice([50, 400, 2000])) + dc[50:120]) if i % 3 else codec.gen_input(rng, "text", rng.choice([10, 300]))
        dreq.append(("dz%d" % i, x, {"level": rng.choice([1, 3, 19]), "checksum": rng.choice([0, 1, 1]), "contentSize": rng.choice([0, 1])},
                     rng.choice(["load", "prefix", "cdict", "loadraw"]), dc))
    dco, _ = cd.impl(["C %s compress2 %s %s %s %s" % (i, codec.params_str(pp), mode, codec.hx(dc), codec.hx(x)) for i, x, pp, mode, dc in dreq])
    DPATHS = ["usingDict", "ddict", "ddictref", "loaddict", "rawdict", "refprefix", "stream:1:0", "stream:7:3", "stream:0:0", "stableout:0", "continue", "multiddict"]

    def addd(cid, data, x, what, layout, dc):
        meta[cid] = (data, x, what, layout, None)
        for pth in DPATHS:
            lines.append("D %s|%s %s - %s %s %d" % (cid, pth, pth, codec.hx(dc) if dc else "-", codec.hx(data), len(x) + 64))
    for i, x, pp, mode, dc in dreq:
        r = codec.parse_ok(dco.get(i, "ERR missing"))
        if r[0] != "OK":
            continue
        f, name = r[1], "zstd+dict(%s) %s n=%d" % (mode, pp, len(x))
        addd("%s.full" % i, f, x, "complete", name, dc)
        for k in range(1, len(f)):
            addd("%s.cut%d" % (i, k), f[:k], x, "prefix", name, dc)
        if pp["checksum"]:
            for bit in range(32):
                g = bytearray(f)
                g[len(f) - 4 + bit // 8] ^= 1 << (bit % 8)
                addd("%s.ck%d" % (i, bit), bytes(g), x, "ckflip", name, dc)
            addd("%s.wrongdict" % i, f, x, "flip", name + " wrong dictionary", bytes(b ^ 0x20 for b in dc))
            addd("%s.nodict" % i, f, x, "flip", name + " no dictionary", None)
    mark("decode cases built (%d lines)" % len(lines))
    out, errs = cd.impl(lines)
    mark("decode cases run")
    if errs:
        ctx.violation(dict(kind="harness-crash", detail=errs[:2]), what="zv_codec crashed on a damaged frame (round-2 scenarios): %r" % (errs[0],))
    ndone = 0
    for key, rest in out.items():
        cid, pth = key.split("|")
        data, x, what, layout, fkey = meta[cid]
        r = codec.parse_ok(rest)
        rep = dict(layout=layout, damage=what, case=cid, path=pth, frame_hex=data.hex(), result=str(r[:2])[:200])
        ctx.count((layout.split(" ")[0], what, pth.split(":")[0], "r2"), nontrivial=True)
        ndone += 1
        if what == "complete":
            if r[0] != "OK" or r[1] != x:
                ctx.violation(rep, what="valid frame (%s) does not decode through %s: %s" % (layout, pth, r[1] if r[0] == "ERR" else "content differs"))
        elif what in ("prefix", "garbage") and r[0] == "OK":
            ctx.violation(rep, what="%s accepted by libzstd path %s as a complete successful decode (%s, %d bytes of %s)" % (
                "a proper prefix" if what == "prefix" else "a frame followed by bytes that are not a frame", pth, cid, len(data), layout))
        elif what in ("ckflip", "fcslie") and r[0] == "OK":
            # the known defects live on one side only: legacy size lies on the streaming paths, v0.7 checksums on the one-shot paths
            streaming = pth.startswith("stream") or pth.startswith("stableout")
            if (fkey == KEY_LEGACY_FCS and not streaming) or (fkey == KEY_V07_CK and streaming):
                fkey = None
            keyed(rep, key=fkey, what="%s frame with a %s accepted by libzstd path %s (%s of %s)" % (
                "legacy" if cid[0] == "G" else "zstd", "damaged stored checksum" if what == "ckflip" else "wrong declared content size", pth, cid, layout))
        elif what == "flip" and r[0] == "OK" and r[1] != x:
            if fkey == KEY_V07_CK and (pth.startswith("stream") or pth.startswith("stableout")):
                fkey = None
            keyed(rep, key=fkey, what="checksum-protected frame (damaged content, or decoded with the wrong dictionary) accepted by libzstd path %s with altered content (%s of %s)" % (pth, cid, layout))
    rcases += prc + prc_lie
    mark("decode cases judged")
    if rcases:
        mres = cd.model(rcases)
        mark("R on %d cases" % len(rcases))
        for cid, m in mres.items():
            data, x, what, layout, fkey = meta[cid]
            rep = dict(layout=layout, damage=what, case=cid, decoder="R", frame_hex=data.hex(), result=str(m[:1] + m[2:])[:200])
            if what == "complete" and (m[0] != "OK" or m[1] != x):
                ctx.violation(rep, what="reference decoder R rejects / mis-decodes a catalogue frame (%s)" % layout, no_input=True)
            if what in ("prefix", "garbage") and m[0] == "OK":
                ctx.violation(rep, what="reference decoder R accepts a %s (%s): contradicts C09_last_frame_truncated_rejected / C09_trailing_bytes_rejected" % (what, cid), no_input=True)
            if what in ("ckflip", "fcslie") and m[0] == "OK":
                ctx.violation(rep, what="reference decoder R accepts a frame with a %s (%s): contradicts C09_size_and_checksum_enforced" % (
                    "damaged stored checksum" if what == "ckflip" else "wrong declared content size", cid), no_input=True)
            ctx.cov["traces_validated_against_impl"] += 1
    ctx.notes["round2_decode_cases"] = ndone

    # ---- (c) decoder histories: a session abandoned mid-frame then reset, size hints on prefixes, wrong sizes ----
    eexe = core.build_harness("c09_enc", ["c09_enc.c"], variant="o1", extra_flags=["-w"])
    hl, hm = [], {}
    ckl = [c for c in cat if (c[1][4] >> 2) & 1] or cat
    for i in range(150 if ctx.quick else 6000):
        a = rng.choice(cat)
        b = rng.choice(ckl if rng.random() < 0.8 else cat)
        cut = rng.randrange(0, len(a[1]) + 1)
        hl.append("R r%d - %s %d %s %d" % (i, a[1].hex(), cut, b[1].hex(), len(a[2]) + len(b[2]) + 64))
        hm["r%d" % i] = ("R", b[2], (a[0], cut, b[0]))
        if (b[1][4] >> 2) & 1:
            d = bytearray(b[1])
            d[-1 - rng.randrange(4)] ^= 1 << rng.randrange(8)
            hl.append("R rd%d - %s %d %s %d" % (i, a[1].hex(), cut, bytes(d).hex(), len(a[2]) + len(b[2]) + 64))
            hm["rd%d" % i] = ("Rbad", None, (a[0], cut, b[0]))
    for li, (name, f, x) in enumerate(cat):
        for k in (range(0, len(f) + 1) if len(f) <= 320 else [0, 1, 4, 5, 6, 9, len(f) - 5, len(f) - 4, len(f) - 1, len(f)]):
            hl.append("N n%d.%d - %s %d" % (li, k, f[:k].hex() or "-", len(x) + 64))
            hm["n%d.%d" % (li, k)] = ("N", (k, len(f)), (name,))
        hl.append("W w%d %s %d" % (li, f.hex(), len(x) + 64))
        hm["w%d" % li] = ("W", None, (name,))
    ho, herrs = codec._run_chunks(eexe, hl, core.NCPU, 600)
    mark("decoder histories run (%d)" % len(hl))
    if herrs:
        ctx.violation(dict(kind="harness-crash", detail=herrs[:2]), what="c09_enc crashed on a decoder history: %r" % (herrs[0],))
    for k, rest in ho.items():
        kind, info, desc = hm[k]
        t = rest.split(" ")
        rep = dict(kind="decoder-history", case=k, desc=desc, result=rest[:200])
        ctx.count(("history", kind), nontrivial=True)
        if kind == "R" and (t[0] != "OK" or codec.unhx(t[1]) != info):
            ctx.violation(rep, what="a valid frame is not decoded correctly after a session abandoned mid-frame and ZSTD_DCtx_reset(session_only): %s" % rest[:80])
        elif kind == "Rbad" and t[0] == "OK":
            ctx.violation(rep, what="frame with a damaged stored checksum accepted after a session abandoned mid-frame and ZSTD_DCtx_reset(session_only)")
        elif kind == "N":
            cutk, fl = info
            if t[0] != "END":
                ctx.violation(rep, what="buffer-less decoding of a prefix of a valid frame failed before the input ran out: %s" % rest[:80])
            elif cutk < fl and int(t[1]) == 0:
                ctx.violation(rep, what="ZSTD_nextSrcSizeToDecompress is 0 (frame complete) after only %d of %d bytes of a frame" % (cutk, fl))
            elif cutk == fl and int(t[1]) != 0:
                ctx.violation(rep, what="ZSTD_nextSrcSizeToDecompress is not 0 after a complete frame")
        elif kind == "W" and t[0] != "OK":
            ctx.violation(rep, what="ZSTD_decompressContinue accepted a source size other than the one it asked for: %s" % rest[:80])

    # ---- (d) compression side: a pledged source size under every way of feeding and ending the frame ----
    BLK = 131072
    pl, pmeta = [], {}
    sizes = [0, 1, 5000, 140000] if ctx.quick else [0, 1, 100, 5000, 131071, 131072, 140000, 300000]
    inputs = {n: codec.gen_input(rng, rng.choice(["text", "random"]), n) for n in sizes}
    hexes = {n: codec.hx(x) for n, x in inputs.items()}

    def chunkings(n):
        c = ["-", "%d:0" % n, "%d:2" % n, "%d:1" % n, "%d:0,%d:0" % (n // 2, n - n // 2), "%d:0,%d:1" % (n // 2, n - n // 2),
             "%d:1,%d:2" % (n // 2, n - n // 2), "1:0,%d:2" % max(0, n - 1), "0:0,%d:0" % n, "%d:0,0:0" % n]
        if n > BLK:
            c += ["%d:0,%d:0" % (BLK - 1, n - BLK + 1), "%d:0,1:0,%d:2" % (BLK - 1, n - BLK)]
        return c

    def lies(n):
        return sorted({n, n + 1, max(0, n - 1), 0, n + 1000, 2 * n + 3, 100})

    pid = 0
    for n in sizes:
        for params in ({}, {"stableIn": 1}, {"nbWorkers": 1}, {"nbWorkers": 1, "stableIn": 1}, {"contentSize": 0, "stableIn": 1}, {"checksum": 1, "stableIn": 1}):
            if ctx.quick and n > 5000 and params not in ({}, {"stableIn": 1}):
                continue
            for pledge in lies(n) + [None]:      # None: no pledge at all (the size is auto-determined when the frame starts under ZSTD_e_end)
                for ch in chunkings(n):
                    if rng.random() < ((0.5 if n <= 5000 else 0.85) if ctx.quick else (0.0 if n <= 5000 else 0.7)):
                        continue
                    pid += 1
                    pl.append("P p%d s2 %s %s %s %s" % (pid, codec.params_str(params), "-" if pledge is None else pledge, ch, hexes[n]))
                    pmeta["p%d" % pid] = ("s2", params, pledge, ch, n)
        for var, kmax in (("old", 4), ("bl", 3), ("os", 2)):
            for k in range(kmax):
                for pledge in lies(n) + ([None] if var == "os" else []):
                    for ch in chunkings(n):
                        if rng.random() < ((0.6 if n <= 5000 else 0.9) if ctx.quick else (0.0 if n <= 5000 else 0.8)):
                            continue
                        # (os: ZSTD_flushStream before the first accepted byte used to break the stable-buffer control of the following
                        # calls - repaired as 9a6b24a, recorded under C10 - and is generated like any other history)
                        pid += 1
                        pl.append("P p%d %s:%d - %s %s %s" % (pid, var, k, "-" if pledge is None else pledge, ch, hexes[n]))
                        pmeta["p%d" % pid] = (var + str(k), {"stableIn": 1} if var == "os" else {}, pledge, ch, n)
        for pledge in lies(n)[:3]:
            pid += 1
            pl.append("P p%d c2 - %d - %s" % (pid, pledge, hexes[n]))
            pmeta["p%d" % pid] = ("c2", {}, pledge, "-", n)
    # really multithreaded frames (above ZSTDMT_JOBSIZE_MIN), also over a stable input buffer and with long-distance matching
    nbig = 600000
    inputs[nbig] = codec.gen_input(rng, "text", nbig)
    hexes[nbig] = codec.hx(inputs[nbig])
    for j in range(6 if ctx.quick else 60):
        params = rng.choice([{"nbWorkers": 1, "jobSize": 1}, {"nbWorkers": 2, "jobSize": 1, "stableIn": 1}, {"nbWorkers": 1, "jobSize": 1, "checksum": 1, "contentSize": 0},
                             {"nbWorkers": 2, "jobSize": 1, "ldm": 1, "stableIn": 1}])
        pledge = rng.choice([nbig, nbig + 1, nbig - 1, nbig - 300000, nbig + 600000, 0, None])
        ch = rng.choice(["%d:0" % nbig, "%d:0,%d:0" % (nbig // 2, nbig - nbig // 2), "%d:1,%d:0" % (nbig // 3, nbig - nbig // 3), "100:0,%d:0" % (nbig - 100),
                         "%d:0,100:2" % (nbig - 100), "%d:2" % nbig, "100000:0,100000:0,100000:0,100000:0,100000:0,%d:0" % (nbig - 500000)])
        pid += 1
        pl.append("P p%d s2 %s %s %s %s" % (pid, codec.params_str(params), "-" if pledge is None else pledge, ch, hexes[nbig]))
        pmeta["p%d" % pid] = ("s2", params, pledge, ch, nbig)
    mark("pledge histories built (%d)" % len(pl))
    po, perrs = codec._run_chunks(eexe, pl, core.NCPU, 900)
    mark("pledge histories run")
    if perrs:
        ctx.violation(dict(kind="harness-crash", detail=perrs[:2]), what="c09_enc crashed on a compression history: %r" % (perrs[0],))
    # the same histories through the extracted model of the pledge bookkeeping (coq/Codec/C09Pledge.v): fixed=1 is the tree since
    # 99eca65 (theorem C09_pledge_enforced), fixed=0 the tree before it (theorem C09_pledge_before_99eca65)
    mexe = core.build_extracted("c09model", "Extract/Extract_C09.v", "c09_driver.ml")
    ml_ = []
    for k, (var, params, pledge, ch, n) in pmeta.items():
        if not (var == "s2" or var.startswith("old") or var.startswith("os")):
            continue
        chs = [] if ch == "-" else [tuple(int(v) for v in c.split(":")) for c in ch.split(",")]
        hist, off = [], 0
        for cn, cdir in chs:
            e = min(n - off, cn)
            off += e
            if var == "s2":
                hist.append((e, cdir))
                if cdir == 2:
                    break
            else:
                hist.append((e, 0))
                if cdir == 1:
                    hist.append((0, 1))
        if not hist or hist[-1][1] != 2:
            hist.append((0, 2))
        mp = "-" if (pledge is None or (var in ("old0", "old1", "os0", "os1") and pledge == 0)) else str(pledge)
        hs = ",".join("%d:%d" % c for c in hist)
        for fx in (0, 1):
            ml_.append("%s.%d %d %d %s %s" % (k, fx, fx, 1 if params.get("stableIn") else 0, mp, hs))
    mo, merrs = codec._run_chunks(mexe, ml_, core.NCPU, 600)
    if merrs:
        raise RuntimeError("c09 model driver crashed: %r" % (merrs[:2],))
    dl = []
    for k, rest in po.items():
        var, params, pledge, ch, n = pmeta[k]
        t = rest.split(" ")
        chs = [] if ch == "-" else [tuple(int(v) for v in c.split(":")) for c in ch.split(",")]
        supplied = min(n, sum(c[0] for c in chs))
        if var == "c2":
            supplied = n
        ok = t[0] == "OK"
        nopledge = pledge is None
        if nopledge:
            pledge = -1
        # is the pledge in force?  zstd.h (ZSTD_CCtx_setPledgedSrcSize, note 3): overridden when the end directive comes with the very
        # first call ("all input data is provided and consumed in a single round"); the legacy initialisers document 0 as "unknown".
        # With ZSTD_c_stableInBuffer a ZSTD_e_continue call below one block is only recorded: the pledge is in force as soon as such
        # a call ACCEPTED at least one byte (repair 99eca65); deferred calls of 0 bytes change no state and do not start the frame.
        first_dir = chs[0][1] if chs else 2
        deferred = False
        if var == "s2":
            in_force = first_dir != 2
            if params.get("stableIn") and in_force:
                acc, init_dir = 0, 2
                for cn, cdir in chs:
                    acc = min(n, acc + cn)
                    if cdir != 0 or acc >= BLK:
                        init_dir = cdir
                        break
                deferred = init_dir == 2     # every earlier e_continue call was "pretend-consumed": the frame starts under ZSTD_e_end
                if deferred and acc == 0:
                    in_force = False         # nothing was accepted before the end directive
        elif var.startswith("old"):
            in_force = bool(chs) and not (pledge == 0 and var in ("old0", "old1"))
        elif var.startswith("os"):
            acc, began = 0, False
            for cn, cdir in chs:
                acc = min(n, acc + cn)
                began = began or cdir == 1 or acc >= BLK
            in_force = pledge != 0 and (began or acc > 0)
            deferred = not began
        elif var.startswith("bl"):
            in_force = not (pledge == 0 and var == "bl1")
        else:
            in_force = False
        if nopledge:
            in_force = False
        rep = dict(kind="pledge-history", variant=var, params=params, pledged=pledge, supplied=supplied, calls=ch, input_size=n,
                   result=" ".join(t[:1] + t[2:])[:300] if ok else rest[:300])
        ctx.count(("pledge2", var, pledge == supplied, in_force, deferred), nontrivial=True)
        if ok and in_force and pledge != supplied:
            keyed(rep, key=KEY_STABLEIN if deferred else None,
                  what="compression (%s%s) with a pledged size of %s reported success although %d bytes were supplied (calls %s)" % (
                              var, " " + str(params) if params else "", pledge, supplied, ch))
        elif not ok and (pledge == supplied or not in_force):
            ctx.violation(rep, what="compression (%s%s) failed (%s) although the pledge %s (pledged %s, supplied %d, calls %s)" % (
                var, " " + str(params) if params else "", t[1], "was met" if pledge == supplied else "is documented as not in force", pledge, supplied, ch))
        if k + ".1" in mo:
            m1, m0 = mo[k + ".1"].split(" "), mo[k + ".0"].split(" ")
            ctx.cov["traces_validated_against_impl"] += 1
            expect_ok = not (in_force and pledge != supplied)
            if (m1[1] == "ok") != expect_ok:
                ctx.violation(dict(rep, model=m1), what="the pledge model (fixed=1) disagrees with the property's statement on history %s (pledged %s, supplied %d)" % (ch, pledge, supplied), no_input=True)
            if ok != (m0[1] == "ok") and ok != (m1[1] == "ok"):
                ctx.violation(dict(rep, model_as_is=m0, model_fixed=m1), what="libzstd's verdict (%s) on pledge history %s (%s, pledged %s, supplied %d) matches neither model of the pledge bookkeeping (before / since 99eca65)" % (
                    "success" if ok else t[1], ch, var, pledge, supplied))
            if not ok and len(t) > 2 and t[2] != "-":
                last = [c for c in t[2].split(";") if c][-1]
                if last[0] in "cf" and "K" not in m0[0] and "K" not in m1[0]:
                    ctx.violation(dict(rep, model_as_is=m0), what="libzstd refused a %s call of pledge history %s although the pledge could still be met (the model never reports `over`)" % (
                        "continue" if last[0] == "c" else "flush", ch))
        if ok:
            dl.append("D %s oneshot - %s %s %d" % (k, codec.hx(b"the quick brown fox jumps over the lazy dog") if var in ("old3", "bl2") else "-", t[1], supplied + 64))
            if var in ("old3", "bl2"):
                dl[-1] = dl[-1].replace(" oneshot ", " usingDict ")
    mark("pledge histories judged")
    do, derrs = cd.impl(dl)
    mark("pledge frames decoded (%d)" % len(dl))
    for k, rest in do.items():
        var, params, pledge, ch, n = pmeta[k]
        chs = [] if ch == "-" else [tuple(int(v) for v in c.split(":")) for c in ch.split(",")]
        supplied = n if var == "c2" else min(n, sum(c[0] for c in chs))
        r = codec.parse_ok(rest)
        if r[0] != "OK" or r[1] != inputs[n][:supplied]:
            ctx.violation(dict(kind="pledge-history", variant=var, params=params, pledged=pledge, supplied=supplied, calls=ch, result=str(r[:2])[:200]),
                          what="a frame reported as successfully compressed (%s, pledged %s, supplied %d) does not decode to the supplied bytes: %s" % (
                              var, pledge, supplied, r[1] if r[0] == "ERR" else "content differs"))
    ctx.notes["round2_pledge_histories"] = len(po)
    if repeats:
        ctx.notes["round2_cases_per_finding"] = repeats


def run(ctx):
    ctx.cov["rule"] = ("layout catalogue = hand-built raw/RLE frames covering every header form (FCS 0/1/2/4/8 bytes incl. the +256 form, single "
                       "segment, dictID widths, empty last block) + real compressor output (compressed blocks, checksum, multi-block); for each "
                       "frame EVERY cut point k in 1..|f|-1 x {one-shot, stream 1-byte / 7-byte / whole segments, buffer-less, R}; trailing garbage; "
                       "every single-bit flip of the stored checksum; sampled bit flips elsewhere; content-size lies; pledged-size lies; "
                       "round 2: legacy v0.5/v0.6/v0.7 frames (every cut, size lies, every bit of the v0.7 checksum), hand-built checksummed frames incl. empty "
                       "content, size lies for every field width incl. wrap-arounds, 7 more decoding entry points + magicless format + 12 dictionary entry "
                       "points at every cut, two frames with only the last cut, stray bytes / cut skippable header behind a frame, decoder histories (reset "
                       "mid-frame, size hints, wrong sizes), pledged-size histories {pledge} x {chunking, directives} x {stable input, workers, flags} through "
                       "compressStream2 / older initialisers / buffer-less API judged by the statement and by the extracted pledge model; "
                       "distinct = distinct (layout, kind of damage, position class); non-trivial = every case (all are damaged frames)")
    import time
    t00 = time.time()
    ctx.prove()
    core.log("c09 prove done at +%.1fs" % (time.time() - t00))
    cd = codec.Codec(ctx)
    rng = random.Random(ctx.seed)
    cat = catalogue(ctx, rng, cd)
    lines, rcases, meta = [], [], {}

    NOCK = codec.dparams_str({"forceIgnoreChecksum": 1})

    def add(cid, data, expect_content, what, layout, paths, nock=False):
        meta[cid] = (data, expect_content, what, layout)
        cap = len(expect_content) + 64 if expect_content is not None else 4096
        for pth in paths:
            lines.append("D %s|%s %s %s - %s %d" % (cid, pth, pth, NOCK if nock else "-", codec.hx(data), cap))
        rcases.append((cid, "nostrict" + (",nocheck" if nock else ""), None, data))

    PATHS = ["oneshot", "stream:1:0", "stream:7:3", "stream:0:0", "continue"]
    for li, (name, f, x) in enumerate(cat):
        # sanity: the complete frame decodes
        add("L%d.full" % li, f, x, "complete", name, ["oneshot", "stream:1:0"])
        cuts = range(1, len(f)) if len(f) <= 320 or not ctx.quick else sorted(set(list(range(1, 40)) + rng.sample(range(40, len(f)), 120) + list(range(len(f) - 12, len(f)))))
        for k in cuts:
            add("L%d.cut%d" % (li, k), f[:k], None, "prefix", name, PATHS if len(f) <= 320 else ["oneshot", "stream:7:3"])
        for j in range(3):
            g = rng.randbytes(rng.choice([1, 2, 3, 4, 5, 9]))
            add("L%d.tail%d" % (li, j), f + g, None, "garbage", name, ["oneshot"])
        has_ck = (f[4] >> 2) & 1
        if has_ck:
            # checksum verification switched off (ZSTD_d_forceIgnoreChecksum): the 4 checksum bytes still belong to the frame
            for k in range(max(1, len(f) - 6), len(f)):
                add("L%d.nockcut%d" % (li, k), f[:k], None, "prefix", name + " nocheck", PATHS, nock=True)
            add("L%d.nockfull" % li, f, x, "complete", name + " nocheck", ["oneshot", "stream:1:0", "stream:7:3", "continue"], nock=True)
            add("L%d.nock2" % li, f + f, x + x, "complete", name + " nocheck x2", ["oneshot", "stream:1:0", "stream:0:0"], nock=True)
        if has_ck:
            for bit in range(32):
                d = bytearray(f)
                d[len(f) - 4 + bit // 8] ^= 1 << (bit % 8)
                add("L%d.ck%d" % (li, bit), bytes(d), x, "ckflip", name, ["oneshot", "stream:7:3", "stream:1:0", "continue"])
        # flips outside the stored checksum are only meaningful when a checksum protects the content
        # (zstd.h promises detection only then); stay behind the frame header (flipping the checksum flag itself is outside the quantifier)
        hdr = 4 + 1 + (0 if (f[4] >> 5) & 1 else 1) + [0, 1, 2, 4][f[4] & 3] + ([1 if (f[4] >> 5) & 1 else 0, 2, 4, 8][f[4] >> 6])
        fcsw = [1 if (f[4] >> 5) & 1 else 0, 2, 4, 8][f[4] >> 6]
        if fcsw:
            # content-size lies: declared size off by one (same field width)
            fpos = hdr - fcsw
            v = int.from_bytes(f[fpos:fpos + fcsw], "little")
            for dv in (-1, 1):
                if 0 <= v + dv < (1 << (8 * fcsw)):
                    d = bytearray(f)
                    d[fpos:fpos + fcsw] = (v + dv).to_bytes(fcsw, "little")
                    add("L%d.fcs%+d" % (li, dv), bytes(d), x, "fcslie", name, ["oneshot", "stream:7:3", "stream:0:0", "continue"])
        for j in range((40 if ctx.quick else 200) if has_ck and len(f) > hdr else 0):
            pos = rng.randrange(hdr, len(f))
            d = bytearray(f)
            d[pos] ^= 1 << rng.randrange(8)
            add("L%d.flip%d" % (li, j), bytes(d), x, "flip", name, ["oneshot"])
    # skippable frames (alone, before and after a zstd frame): a stream cut inside a skippable frame's header or content is as
    # incomplete as one cut inside a block; cuts that fall exactly between two frames leave a complete stream and are skipped
    small = [(name, f, x) for name, f, x in cat if len(f) <= 320][:2]
    sk = lambda payload, v=0: (0x184D2A50 + v).to_bytes(4, "little") + len(payload).to_bytes(4, "little") + payload
    comps = []
    for j, n in enumerate((0, 1, 7, 40, 300)):
        comps.append(("skip%d" % n, [sk(rng.randbytes(n), j % 16)], b""))
    for name, f, x in small:
        comps.append(("frame+skip " + name, [f, sk(rng.randbytes(33), 3)], x))
        comps.append(("skip+frame " + name, [sk(rng.randbytes(20), 15), f], x))
        comps.append(("frame+skip0+frame " + name, [f, sk(b""), f], x + x))
    for ci, (name, parts, x) in enumerate(comps):
        data = b"".join(parts)
        bounds, acc = set(), 0
        for part in parts:
            acc += len(part)
            bounds.add(acc)
        add("K%d.full" % ci, data, x, "complete", name, ["oneshot", "stream:1:0", "stream:7:3", "continue"])
        for k in range(1, len(data)):
            if k in bounds:
                continue
            add("K%d.cut%d" % (ci, k), data[:k], None, "prefix", name, PATHS)
    core.log("c09 round1 cases built (%d lines) at +%.1fs" % (len(lines), time.time() - t00))
    out, errs = cd.impl(lines)
    core.log("c09 round1 impl done at +%.1fs" % (time.time() - t00))
    if errs:
        ctx.violation(dict(kind="harness-crash", detail=errs[:2]), what="zv_codec crashed on a damaged frame: %r" % (errs[0],))
    mres = cd.model(rcases)
    core.log("c09 round1 R done (%d cases) at +%.1fs" % (len(rcases), time.time() - t00))
    nfull = 0
    for key, rest in out.items():
        cid, pth = key.split("|")
        data, x, what, layout = meta[cid]
        r = codec.parse_ok(rest)
        rep = dict(layout=layout, damage=what, case=cid, path=pth, frame_hex=data.hex(), result=str(r[:2])[:200])
        if what == "complete":
            if r[0] != "OK" or r[1] != x:
                ctx.violation(rep, what="catalogue frame does not decode through %s: %s" % (pth, r[1] if r[0] == "ERR" else "content differs"))
            else:
                nfull += 1
        elif what in ("prefix", "garbage"):
            if r[0] == "OK":
                ctx.violation(rep, what="%s accepted by libzstd path %s as a complete successful decode (%s, %d bytes of %s)" % (
                    "a proper prefix of a frame" if what == "prefix" else "a frame followed by non-frame bytes", pth, cid, len(data), layout))
        elif what in ("ckflip", "fcslie"):
            if r[0] == "OK":
                ctx.violation(rep, what="frame with a %s accepted by libzstd path %s (%s of %s)" % (
                    "damaged stored checksum" if what == "ckflip" else "wrong declared content size", pth, cid, layout))
        elif what == "flip":
            if r[0] == "OK" and r[1] != x:
                ctx.violation(rep, what="damaged frame accepted by libzstd path %s with altered content (%s of %s)" % (pth, cid, layout))
        ctx.count((layout.split(" ")[0], what, pth), nontrivial=True)
    for cid, m in mres.items():
        data, x, what, layout = meta[cid]
        rep = dict(layout=layout, damage=what, case=cid, decoder="R", frame_hex=data.hex(), result=str(m[:1] + m[2:])[:200])
        if what == "complete" and (m[0] != "OK" or m[1] != x):
            ctx.violation(rep, what="reference decoder R rejects / mis-decodes a catalogue frame (%s): the model does not cover this layout" % layout, no_input=True)
        if what in ("prefix", "garbage") and m[0] == "OK":
            ctx.violation(rep, what="reference decoder R accepts a %s (contradicts theorem C09_proper_prefix_rejected: model/extraction problem)" % what, no_input=True)
        if what in ("ckflip", "fcslie") and m[0] == "OK":
            ctx.violation(rep, what="reference decoder R accepts a frame with a %s (contradicts theorem C09_size_and_checksum_enforced)" % what, no_input=True)
        if what == "flip" and m[0] == "OK" and m[1] != x:
            ctx.violation(rep, what="reference decoder R accepts a damaged frame with altered content", no_input=True)
        ctx.cov["traces_validated_against_impl"] += 1
    # pledged-size lies.  The first call is always a `continue` call: zstd.h (ZSTD_CCtx_setPledgedSrcSize, note 3) documents that a
    # pledge is overridden by the actual size when all input is given in one ZSTD_e_end round, so such a pledge is not in force.
    pl = []
    for i in range(30 if ctx.quick else 200):
        n = rng.choice([0, 1, 100, 5000, 140000])
        x = codec.gen_input(rng, rng.choice(["text", "random", "zeros"]), n)
        lie = rng.choice([n + 1, max(0, n - 1), n + 1000, 0 if n else 5, n])
        # the pledge is in force whatever the frame header records (ZSTD_c_contentSizeFlag=0) and whatever else is set
        pp = {"level": rng.choice([1, 3])}
        r = rng.random()
        if r < 0.35:
            pp["contentSize"] = 0
        if rng.random() < 0.2:
            pp["checksum"] = 1
        if rng.random() < 0.15:
            pp["windowLog"] = rng.choice([10, 17])
        pl.append(("p%d" % i, x, lie, pp))
    # ... and on the multithreaded path (pledges above ZSTDMT_JOBSIZE_MIN = 512 KiB, otherwise the frame runs single-threaded)
    for j, dv in enumerate((1, -1, 1000, 0, -70000) if ctx.quick else (1, -1, 1000, 0, -70000, 2, -2, 300000, 0, -600000)):
        n = rng.choice([600000, 700000])
        x = codec.gen_input(rng, rng.choice(["text", "random"]), n)
        pl.append(("pm%d" % j, x, n + dv, {"level": 1, "nbWorkers": rng.choice([1, 2]), "jobSize": 1, "checksum": rng.randrange(2)}))
    pout, perrs = cd.impl(["S %s %s - - %s %s %d" % (i, codec.params_str(pp), "%d:%d:0" % (len(x) // 2, 1 << 20), codec.hx(x), lie) for i, x, lie, pp in pl])
    pl = [(i, x, lie) for i, x, lie, pp in pl]
    for i, x, lie in pl:
        rest = pout.get(i, "ERR missing")
        r = rest.split(" ")
        failed = r[0] == "ERR" or (len(r) > 2 and "E" in r[2].replace("ERR", ""))
        if lie != len(x) and not failed:
            ctx.violation(dict(kind="pledge", pledged=lie, actual=len(x), result=rest[:300]), what="compression with pledged size %d of %d bytes did not report an error by end of frame" % (lie, len(x)))
        if lie == len(x) and failed:
            ctx.violation(dict(kind="pledge", pledged=lie, actual=len(x), result=rest[:300]), what="compression with a correct pledged size failed")
        ctx.count(("pledge", lie == len(x), min(len(x), 2)), nontrivial=True)
    # streaming checksum (theorem C09_checksum_is_chunking_independent): XXH64_reset / update per chunk / digest of the current tree vs the model
    xexe = core.build_harness("c09_xxh", ["c09_xxh.c"], variant="o1", extra_flags=["-w"], link_lib=True)
    xc = []
    for i in range(60 if ctx.quick else 600):
        total = rng.choice([0, 1, 31, 32, 33, 63, 64, 65, 100, 1000, 5000])
        data = rng.randbytes(total)
        cuts = sorted(rng.sample(range(total + 1), min(total + 1, rng.choice([0, 1, 2, 5, 40])))) if total else []
        chunks, prev = [], 0
        for cpos in cuts + [total]:
            chunks.append(data[prev:cpos])
            prev = cpos
        if rng.random() < 0.3:
            chunks.insert(rng.randrange(len(chunks) + 1), b"")
        xc.append(("x%d" % i, rng.choice([0, 0, 1, 2 ** 64 - 1, rng.getrandbits(64)]), chunks))
    xin = "\n".join("%s %d %s" % (i, sd, "_".join(c.hex() or "-" for c in ch)) for i, sd, ch in xc) + "\n"
    xo = core.sh([xexe], inp=xin.encode())[1]
    ximpl = {l.split(" ")[0]: l.split(" ")[2:] for l in xo.splitlines() if l}
    xlines = ["%s xxh=%d %s -" % (i, sd, "_".join(c.hex() for c in ch) or "-") for i, sd, ch in xc]
    xm, _ = codec._run_chunks(cd.r_exe(), xlines, core.NCPU, 600)
    for i, sd, ch in xc:
        got = ximpl.get(i)
        mod = xm.get(i, "ERR").split(" ")
        ctx.count(("xxh", len(ch) > 1, min(sum(map(len, ch)), 64) // 32), nontrivial=True)
        if not got or got[0] != got[1]:
            ctx.violation(dict(kind="xxh-streaming", seed=sd, chunks=[c.hex() for c in ch][:50], result=str(got)),
                          what="XXH64 streaming digest differs from the one-shot digest of the concatenation (%d chunks, %d bytes)" % (len(ch), sum(map(len, ch))))
        elif mod[0] != "OK" or mod[1] != got[0]:
            ctx.violation(dict(kind="xxh-model", seed=sd, chunks=[c.hex() for c in ch][:50], impl=got[0], model=" ".join(mod)),
                          what="the XXH64 streaming model disagrees with XXH64_update/digest of the current tree", no_input=True)
    core.log("c09 round1 done at +%.1fs" % (time.time() - t00))
    round2(ctx, random.Random(ctx.seed * 7919 + 9), cd, cat)
    ctx.notes["layouts"] = len(cat)
    ctx.notes["complete_frames_decoded"] = nfull
    ctx.sample(dict(layout=cat[0][0], frame_hex=cat[0][1].hex(), cut_points="1..%d" % (len(cat[0][1]) - 1)))
    ctx.sample(dict(layout=cat[-1][0], frame_hex=cat[-1][1].hex()[:400]))
    ctx.proof_verdict(None)
