"""C16, fourth mechanism: level -> compression parameters (table + ZSTD_adjustCParams_internal).
Tie: harness/c16_adjust.c (statics of the current zstd_compress.c) vs the extracted CParamsAdjust model, same inputs;
direct oracle: ZSTD_checkCParams accepts every result (column 8 of the real output)."""
from .. import core

U64 = (1 << 64) - 1


def big(n):
    return "b" + bin(n)[2:] if n >= (1 << 60) else str(n)


def sizes(rng):
    base = [0, 1, 63, 64, 65, 512, 513, 514, 1 << 10, (1 << 10) + 1, 16 << 10, (16 << 10) + 1, 128 << 10, (128 << 10) + 1, 256 << 10,
            (256 << 10) + 1, 1 << 20, (1 << 30) - 1, 1 << 30, (1 << 30) + 1, 1 << 31, (1 << 31) + 1, (1 << 32) - 1, 1 << 32, (1 << 32) + 7,
            1 << 40, U64 - 1, U64, U64 - 500, U64 - 499, U64 - 501]
    return base + [1 << rng.randint(0, 63) for _ in range(4)] + [max(0, (1 << rng.randint(0, 33)) + rng.randint(-3, 3)) for _ in range(6)]


def dsizes(rng):
    """dictionary sizes: a size_t that can be the size of an object (< 2^63; beyond that ZSTD_dictAndWindowLog wraps)"""
    return [x for x in sizes(rng) if x < (1 << 63)] + [(1 << 63) - 1]


def run(ctx, env, rng, found):
    cx = core.build_harness("c16_adjust", ["c16_adjust.c"], variant="o1", extra_flags=["-w"])
    k = env.k
    b = {n: env.cb[env.cid[n]] for n in ("windowLog", "chainLog", "hashLog", "searchLog", "minMatch", "targetLength", "strategy")}
    real_lines, model_lines = [], []

    def emit(kind, nums):
        real_lines.append(kind + " " + " ".join(str(x) for x in nums))
        model_lines.append(kind + " " + " ".join(big(x) if x >= 0 else str(x) for x in nums))

    def rnd_valid():
        def pick(n):
            lo, hi = b[n]
            c = rng.random()
            return lo if c < 0.2 else hi if c < 0.4 else rng.randint(lo, hi)
        return [pick(n) for n in ("windowLog", "chainLog", "hashLog", "searchLog", "minMatch", "targetLength", "strategy")]

    nadj = 3000 if ctx.quick else 60000
    for _ in range(nadj):
        ss = sizes(rng)
        emit("adj", rnd_valid() + [rng.choice(ss), rng.choice(dsizes(rng)), rng.randint(0, 3), rng.randint(0, 2)])
    # corners of the bounds box x size thresholds
    for wl in (b["windowLog"][0], 17, b["windowLog"][1]):
        for cl in (b["chainLog"][0], b["chainLog"][1]):
            for hl in (b["hashLog"][0], b["hashLog"][1]):
                for st in range(b["strategy"][0], b["strategy"][1] + 1):
                    for sl in (1, 4, 5, 6, 30):
                        emit("adj", [wl, cl, hl, sl, 4, 0, st, rng.choice(sizes(rng)), rng.choice([0, 1, 1 << 20, 1 << 31]), rng.randint(0, 3), rng.randint(0, 2)])
    for _ in range(600 if ctx.quick else 10000):
        # public ZSTD_adjustCParams: any unsigned values below 2^31, clamped first
        v = [rng.choice([0, 1, 5, 9, 10, 31, 32, 100, (1 << 31) - 1, rng.randint(0, 40)]) for _ in range(6)] + [rng.randint(0, 12)]
        emit("adjp", v + [rng.choice(sizes(rng)), rng.choice(dsizes(rng))])
    levels = list(range(-10, 26)) + [-131072, -131073, -200000, -(1 << 31), (1 << 31) - 1, 1000]
    for lv in levels:
        for s in sizes(rng)[:31:2] + [rng.choice(sizes(rng))]:
            for d in (0, 1, 500, 16 << 10, 1 << 20):
                emit("get", [lv, s, d, rng.randint(0, 3)])
                emit("getp", [lv, s, d])
    rc, out, err = core.sh([cx], inp=("\n".join(real_lines) + "\n").encode(), timeout=300)
    real = out.strip().split("\n")
    rc2, out2, err2 = core.sh([env.ml], inp=("\n".join(model_lines) + "\n").encode(), timeout=600)
    model = out2.strip().split("\n")
    if rc != 0 or rc2 != 0 or len(real) != len(real_lines) or len(model) != len(real_lines):
        ctx.violation(dict(kind="c16-adjust-run", rc=[rc, rc2], err=(err + err2)[-400:]),
                      what="the getCParams/adjustCParams correspondence could not be run: " + (err + err2)[-300:], no_input=True)
        return
    nbad = 0
    concrete = []
    for ln, r, m in zip(real_lines, real, model):
        t = ln.split()
        ctx.count(("adjust", t[0], r.split()[-2] if t[0].startswith("adj") else t[1]))
        ctx.cov["evaluations"] += 0
        if r.split()[-1] != "1":
            nbad += 1
            if nbad <= 2:
                concrete.append(ln)
                ctx.violation(dict(kind="c16-adjust", line=ln, real=r, model=m),
                              what="`%s` returns compression parameters outside the advertised bounds: %s" % (ln, r))
        elif r != m:
            nbad += 1
            if nbad <= 2:
                ctx.violation(dict(kind="c16-adjust", line=ln, real=r, model=m),
                              what="model/code disagreement on `%s`: code `%s`, model `%s` (result still within bounds)" % (ln, r, m), no_input=True)
    ctx.notes["adjust_cases"] = len(real_lines)
    ctx.sample(dict(adjust_line=real_lines[0], result=real[0]))
    return concrete


def replay(ctx, env, rp):
    cx = core.build_harness("c16_adjust", ["c16_adjust.c"], variant="o1", extra_flags=["-w"])
    ln = rp["line"]
    rc, out, err = core.sh([cx], inp=(ln + "\n").encode(), timeout=60)
    t = ln.split()
    ml = t[0] + " " + " ".join(big(int(x)) if int(x) >= 0 else x for x in t[1:])
    rc2, out2, err2 = core.sh([env.ml], inp=(ml + "\n").encode(), timeout=60)
    r, m = out.strip(), out2.strip()
    core.log("replay `%s`: code `%s` model `%s`" % (ln, r, m))
    if r.split()[-1:] != ["1"]:
        ctx.violation(dict(kind="c16-adjust", line=ln, real=r, model=m), what="`%s` returns parameters outside the bounds: %s" % (ln, r))
    elif r != m:
        ctx.violation(dict(kind="c16-adjust", line=ln, real=r, model=m), what="model/code disagreement on `%s`" % ln, no_input=True)
