"""T-tie: regenerate coq/Gen/*.v from the current /repo working tree (see DESIGN.md section 0)."""
import os
from . import core

_done = False


def regen_all(force=False):
    global _done
    if _done and not force:
        return
    d = core.build_harness("dump_d", ["dump_d.c"], variant="o1", extra_flags=["-w"])
    c = core.build_harness("dump_c", ["dump_c.c"], variant="o1", extra_flags=["-w"])
    outs = [("Gen_Tables.v", [d]), ("Gen_Bounds.v", [c, "b"]), ("Gen_Levels.v", [c, "l"]), ("Gen_Sizes.v", [c, "s"])]
    for fn, cmd in outs:
        rc, out, err = core.sh(cmd, timeout=60)
        if rc != 0:
            raise RuntimeError("dumper failed: %s rc=%d %s" % (cmd, rc, err[-500:]))
        core.write_if_changed(os.path.join(core.COQ, "Gen", fn), out)
    try:   # C20 (contrib/seekable_format); a failure here must not take the other properties down
        regen_seek()
    except Exception as e:
        core.log("Gen_Seek.v not regenerated: %r" % (e,))
    try:   # C18 (dictionary training constants)
        regen_train()
    except Exception as e:
        core.log("Gen_Train.v not regenerated: %r" % (e,))
    try:   # C14 (memory budgets): sizes / constants / level table in N
        regen_c14()
    except Exception as e:
        core.log("Gen_C14.v not regenerated: %r" % (e,))
    try:   # C13 (allocation sizes of the modelled constructors)
        regen_alloc()
    except Exception as e:
        core.log("Gen_Alloc.v not regenerated: %r" % (e,))
    try:   # C03 (constants private to zstd_decompress.c: DDict hash set, no-forward-progress limit)
        regen_c03()
    except Exception as e:
        core.log("Gen_C03.v not regenerated: %r" % (e,))
    try:   # C02/C10 (streaming state machines: constants and enum encodings)
        regen_stream()
    except Exception as e:
        core.log("Gen_Stream.v not regenerated: %r" % (e,))
    _done = True


def regen_seek():
    """C20: constants of contrib/seekable_format -> coq/Gen/Gen_Seek.v (raises when the dumper does not build/run)."""
    sk = core.build_harness("c20_dump", ["c20_dump.c"], variant="o1", extra_flags=["-w"],
                            extra_inc=[os.path.join(core.REPO, "contrib", "seekable_format")])
    rc, out, err = core.sh([sk], timeout=60)
    if rc != 0:
        raise RuntimeError("dumper failed: %s rc=%d %s" % (sk, rc, err[-500:]))
    core.write_if_changed(os.path.join(core.COQ, "Gen", "Gen_Seek.v"), out)


def regen_train():
    """C18: constants of lib/dictBuilder -> coq/Gen/Gen_Train.v (raises when the dumper does not build/run)."""
    t = core.build_harness("c18_dump", ["c18_dump.c", "c18_dump_cover.c"], variant="o1", extra_flags=["-w"],
                           lib_exclude=["cover.c", "fastcover.c", "zdict.c"], libs=["-lpthread", "-lm"])
    rc, out, err = core.sh([t], timeout=60)
    if rc != 0:
        raise RuntimeError("dumper failed: %s rc=%d %s" % (t, rc, err[-500:]))
    core.write_if_changed(os.path.join(core.COQ, "Gen", "Gen_Train.v"), out)


def regen_c14():
    """C14: sizeofs, cwksp/estimate/decoder constants and the level table -> coq/Gen/Gen_C14.v."""
    ex = core.build_harness("c14_dump", ["c14_dump.c"], variant="o1", extra_flags=["-w"])
    rc, out, err = core.sh([ex], timeout=60)
    if rc != 0:
        raise RuntimeError("dumper failed: %s rc=%d %s" % (ex, rc, err[-500:]))
    core.write_if_changed(os.path.join(core.COQ, "Gen", "Gen_C14.v"), out)


def regen_alloc():
    """C13: allocation sizes of the modelled constructors -> coq/Gen/Gen_Alloc.v (raises when the dumper does not build/run)."""
    t = core.build_harness("c13_dump", ["c13_dump.c", "c13_dump_d.c"], variant="o1", link_lib=False,
                           extra_flags=["-w", "-ffunction-sections", "-fdata-sections", "-Wl,--gc-sections"])
    rc, out, err = core.sh([t], timeout=60)
    if rc != 0:
        raise RuntimeError("dumper failed: %s rc=%d %s" % (t, rc, err[-500:]))
    core.write_if_changed(os.path.join(core.COQ, "Gen", "Gen_Alloc.v"), out)


def regen_c03():
    """C03: statics of lib/decompress/zstd_decompress.c -> coq/Gen/Gen_C03.v (raises when the dumper does not build/run)."""
    t = core.build_harness("c03_dump", ["c03_dump.c"], variant="o1", extra_flags=["-w"])
    rc, out, err = core.sh([t], timeout=60)
    if rc != 0:
        raise RuntimeError("dumper failed: %s rc=%d %s" % (t, rc, err[-500:]))
    core.write_if_changed(os.path.join(core.COQ, "Gen", "Gen_C03.v"), out)


def regen_stream():
    """C02/C10: constants / enum encodings of the streaming state machines -> coq/Gen/Gen_Stream.v."""
    t = core.build_harness("c02_dump", ["c02_dump.c"], variant="o1", extra_flags=["-w"])
    rc, out, err = core.sh([t], timeout=60)
    if rc != 0:
        raise RuntimeError("dumper failed: %s rc=%d %s" % (t, rc, err[-500:]))
    core.write_if_changed(os.path.join(core.COQ, "Gen", "Gen_Stream.v"), out)
