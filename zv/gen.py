"""T-tie: regenerate coq/Gen/*.v from the current /repo working tree (see DESIGN.md section 0)."""
import os
from . import core

_done = False


def regen_all(force=False):
    global _done
    if _done and not force:
        return
    d = core.build_harness("dump_d", ["dump_d.c"], variant="o1", extra_flags=["-w"])
    c = core.build_harness("dump_c", ["dump_c.c"], variant="o1", extra_flags=["-w"])
    outs = [("Gen_Tables.v", [d]), ("Gen_Bounds.v", [c, "b"]), ("Gen_Levels.v", [c, "l"]), ("Gen_Sizes.v", [c, "s"])]
    for fn, cmd in outs:
        rc, out, err = core.sh(cmd, timeout=60)
        if rc != 0:
            raise RuntimeError("dumper failed: %s rc=%d %s" % (cmd, rc, err[-500:]))
        core.write_if_changed(os.path.join(core.COQ, "Gen", fn), out)
    _done = True
