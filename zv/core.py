"""Common machinery of the /verif checks (see DESIGN.md sections 2-4).

Every check:  lint -> rebuild libzstd from /repo's working tree -> regenerate
coq/Gen -> make the property's theorem file -> correspondence/validation ->
verdict -> evidence.  This module owns everything that is not property specific.
"""
import fcntl
import glob
import hashlib
import json
import os
import re
import shutil
import subprocess
import sys
import time

VERIF = os.path.dirname(os.path.dirname(os.path.abspath(__file__)))
REPO = os.environ.get("ZV_REPO", "/repo")
BUILD = os.path.join(VERIF, "build")
COQ = os.path.join(VERIF, "coq")
HARNESS = os.path.join(VERIF, "harness")
ML = os.path.join(VERIF, "ml")
EVID = os.path.join(VERIF, "evidence")
REPLAY = os.path.join(EVID, "replay")
NCPU = os.cpu_count() or 8

LIB_DIRS = ["common", "compress", "decompress", "dictBuilder", "legacy", "deprecated"]
BASE_DEFS = ["-DZSTD_VERIF", "-DZSTD_MULTITHREAD", "-DZSTD_LEGACY_SUPPORT=5"]

# build variants of the library (name -> (compiler, cflags, extra defines))
VARIANTS = {
    "o1": ("gcc", ["-O1", "-g"], []),
    "asan": ("gcc", ["-O1", "-g", "-fsanitize=address,undefined",
                     "-fno-sanitize-recover=all", "-fno-omit-frame-pointer"], []),
    "noasm": ("gcc", ["-O1", "-g"], ["-DZSTD_DISABLE_ASM"]),
    "x1": ("gcc", ["-O1", "-g"], ["-DHUF_FORCE_DECOMPRESS_X1"]),
    "x2": ("gcc", ["-O1", "-g"], ["-DHUF_FORCE_DECOMPRESS_X2", "-DZSTD_DISABLE_ASM"]),
    "nobmi2": ("gcc", ["-O1", "-g"], ["-DDYNAMIC_BMI2=0"]),
    "seqshort": ("gcc", ["-O1", "-g"], ["-DZSTD_FORCE_DECOMPRESS_SEQUENCES_SHORT"]),
    "seqlong": ("gcc", ["-O1", "-g"], ["-DZSTD_FORCE_DECOMPRESS_SEQUENCES_LONG"]),
    "nolegacy": ("gcc", ["-O1", "-g"], ["-UZSTD_LEGACY_SUPPORT", "-DZSTD_LEGACY_SUPPORT=0"]),
    "ovf": ("gcc", ["-O1", "-g"], ["-DZSTD_WINDOW_OVERFLOW_CORRECT_FREQUENTLY=1"]),
    "tsan": ("gcc", ["-O1", "-g", "-fsanitize=thread"], []),
    "o3": ("gcc", ["-O3"], []),
}

FORBIDDEN = re.compile(
    r"\b(Admitted|admit|Axiom|Axioms|Parameter|Parameters|Conjecture|Conjectures|"
    r"Admit\s+Obligations|bypass_check|native_compute)\b|Unset\s+Guard|Unset\s+Positivity|"
    r"Unset\s+Universe\s+Checking|-type-in-type|-impredicative-set")


class Violation(Exception):
    pass


def log(*a):
    print("[zv]", *a, file=sys.stderr, flush=True)


def sh(cmd, timeout=None, cwd=None, env=None, check=False, inp=None):
    """Run a command; returns (rc, stdout, stderr). rc=124 on timeout."""
    try:
        p = subprocess.run(cmd, cwd=cwd, env=env, input=inp, timeout=timeout,
                           stdout=subprocess.PIPE, stderr=subprocess.PIPE,
                           shell=isinstance(cmd, str))
        rc, out, err = p.returncode, p.stdout, p.stderr
    except subprocess.TimeoutExpired as e:
        rc, out, err = 124, e.stdout or b"", e.stderr or b""
    out = out.decode("utf-8", "replace") if isinstance(out, bytes) else out
    err = err.decode("utf-8", "replace") if isinstance(err, bytes) else err
    if check and rc != 0:
        raise RuntimeError("command failed rc=%d: %s\n%s\n%s" % (rc, cmd, out[-4000:], err[-4000:]))
    return rc, out, err


class Lock:
    def __init__(self, name):
        os.makedirs(BUILD, exist_ok=True)
        self.path = os.path.join(BUILD, name + ".lock")

    def __enter__(self):
        self.f = open(self.path, "w")
        fcntl.flock(self.f, fcntl.LOCK_EX)
        return self

    def __exit__(self, *a):
        fcntl.flock(self.f, fcntl.LOCK_UN)
        self.f.close()


def write_if_changed(path, text):
    try:
        if open(path).read() == text:
            return False
    except OSError:
        pass
    os.makedirs(os.path.dirname(path), exist_ok=True)
    tmp = path + ".tmp%d" % os.getpid()
    with open(tmp, "w") as f:
        f.write(text)
    os.replace(tmp, path)
    return True


# --------------------------------------------------------------------------
# rebuild of /repo's working tree

def tree_hash(subdirs=("lib",), exts=(".c", ".h", ".S")):
    h = hashlib.sha256()
    for sd in subdirs:
        for root, dirs, files in os.walk(os.path.join(REPO, sd)):
            dirs.sort()
            if "/obj" in root:
                continue
            for fn in sorted(files):
                if fn.endswith(exts):
                    p = os.path.join(root, fn)
                    h.update(p.encode())
                    with open(p, "rb") as f:
                        h.update(f.read())
    return h.hexdigest()[:20]


def lib_sources():
    srcs = []
    for d in LIB_DIRS:
        srcs += sorted(glob.glob(os.path.join(REPO, "lib", d, "*.c")))
    srcs += sorted(glob.glob(os.path.join(REPO, "lib", "decompress", "*.S")))
    return srcs


def inc_flags():
    return ["-I" + os.path.join(REPO, "lib"), "-I" + os.path.join(REPO, "lib", "common"),
            "-I" + os.path.join(REPO, "lib", "compress"), "-I" + os.path.join(REPO, "lib", "decompress"),
            "-I" + os.path.join(REPO, "lib", "dictBuilder"), "-I" + os.path.join(REPO, "lib", "legacy"),
            "-I" + os.path.join(REPO, "lib", "deprecated"), "-I" + REPO, "-I" + HARNESS]


def _prune(parent, keep):
    try:
        ds = sorted((os.path.join(parent, d) for d in os.listdir(parent)),
                    key=lambda p: os.path.getmtime(p), reverse=True)
    except OSError:
        return
    for d in ds[keep:]:
        try:    # several checks (other builders, ZV_REPO scratch copies) share this cache: never remove a tree still in use
            if time.time() - os.path.getmtime(d) < 1800:
                continue
        except OSError:
            continue
        shutil.rmtree(d, ignore_errors=True)


def variant_flags(variant, extra_defs=()):
    cc, cflags, defs = VARIANTS[variant]
    return cc, list(cflags) + BASE_DEFS + list(defs) + list(extra_defs)


def build_lib(variant="o1", extra_defs=(), pre_include=None, exclude=()):
    """Compile lib/ of the current working tree into a static archive.
    Returns the archive path.  Cached by content hash of the sources + flags."""
    cc, flags = variant_flags(variant, extra_defs)
    if pre_include:
        flags = flags + ["-include", pre_include]
    th = tree_hash()
    key = hashlib.sha256((th + " ".join(flags) + cc + "|".join(exclude)
                          + (open(pre_include).read() if pre_include else "")).encode()).hexdigest()[:16]
    outdir = os.path.join(BUILD, "lib", th, variant + "-" + key)
    ar = os.path.join(outdir, "libzstd.a")
    with Lock("lib-" + variant + "-" + key):
        if os.path.exists(ar):
            os.utime(os.path.join(BUILD, "lib", th))
            return ar
        t0 = time.time()
        os.makedirs(outdir, exist_ok=True)
        jobs = []
        for s in lib_sources():
            if os.path.basename(s) in exclude:
                continue
            o = os.path.join(outdir, os.path.basename(s) + ".o")
            jobs.append((s, o))
        procs = []
        errs = []
        pending = list(jobs)
        while pending or procs:
            while pending and len(procs) < NCPU:
                s, o = pending.pop()
                procs.append((s, subprocess.Popen([cc] + flags + inc_flags() + ["-c", s, "-o", o],
                                                   stdout=subprocess.PIPE, stderr=subprocess.STDOUT)))
            s, p = procs.pop(0)
            out = p.communicate()[0]
            if p.returncode != 0:
                errs.append((s, out.decode("utf-8", "replace")))
        if errs:
            shutil.rmtree(outdir, ignore_errors=True)
            raise RuntimeError("library build failed (%s): %s\n%s" % (variant, errs[0][0], errs[0][1][-3000:]))
        tmp = ar + ".tmp"
        sh(["ar", "rcs", tmp] + [o for _, o in jobs], check=True)
        os.replace(tmp, ar)
        log("built libzstd variant=%s in %.1fs -> %s" % (variant, time.time() - t0, outdir))
    _prune(os.path.join(BUILD, "lib"), 3)
    return ar


def build_harness(name, sources, variant="o1", extra_defs=(), libs=("-lpthread",), link_lib=True,
                  extra_flags=(), pre_include=None, lib_exclude=(), extra_inc=()):
    """Compile a harness program (sources relative to harness/ or absolute) against the current tree."""
    cc, flags = variant_flags(variant, extra_defs)
    srcs = [s if os.path.isabs(s) else os.path.join(HARNESS, s) for s in sources]
    h = hashlib.sha256()
    h.update(tree_hash(("lib", "programs", "contrib/seekable_format")).encode())
    for s in srcs:
        h.update(open(s, "rb").read())
    for hdr in sorted(glob.glob(os.path.join(HARNESS, "*.h")) + glob.glob(os.path.join(HARNESS, "*/*.h"))):
        h.update(open(hdr, "rb").read())
    h.update(" ".join([cc] + flags + list(libs) + list(extra_flags) + list(lib_exclude) + list(extra_inc)).encode())
    key = h.hexdigest()[:16]
    outdir = os.path.join(BUILD, "bin", name)
    exe = os.path.join(outdir, "%s-%s-%s" % (name, variant, key))
    with Lock("bin-" + name + "-" + variant):
        if os.path.exists(exe):
            try:    # a cache hit counts as use: the pruning below (age > 1 h) must not remove a binary a running check relies on
                os.utime(exe, None)
            except OSError:
                pass
            return exe
        os.makedirs(outdir, exist_ok=True)
        for old in glob.glob(os.path.join(outdir, "%s-%s-*" % (name, variant))):
            # concurrent checks (other builders, ZV_REPO scratch copies) use other keys of the same program:
            # only binaries nobody can still be running are removed
            try:
                if time.time() - os.path.getmtime(old) > 3600:
                    os.unlink(old)
            except OSError:
                pass
        ar = [build_lib(variant, extra_defs, pre_include=pre_include, exclude=lib_exclude)] if link_lib else []
        t0 = time.time()
        cmd = [cc] + flags + list(extra_flags) + inc_flags() + ["-I" + i for i in extra_inc] + srcs + ar + list(libs) + ["-o", exe + ".tmp"]
        rc, out, err = sh(cmd)
        if rc != 0:
            raise RuntimeError("harness build failed: %s\n%s" % (" ".join(cmd), (out + err)[-4000:]))
        os.replace(exe + ".tmp", exe)
        log("built harness %s (%s) in %.1fs" % (name, variant, time.time() - t0))
    return exe


# --------------------------------------------------------------------------
# Coq

def coq_deps(relv):
    """transitive .v dependencies (inside coq/) of a .v file, from the Require lines"""
    seen, todo = set(), [relv]
    while todo:
        f = todo.pop()
        if f in seen:
            continue
        seen.add(f)
        try:
            txt = strip_coq_comments(open(os.path.join(COQ, f)).read())
        except OSError:
            continue
        for m in re.finditer(r"From\s+ZV(?:\.([A-Za-z0-9_.]+))?\s+Require\s+(?:Import\s+|Export\s+)?([^.]+)\.", txt):
            base = (m.group(1) or "").replace(".", "/")
            for name in m.group(2).split():
                cand = os.path.join(base, name.replace(".", "/") + ".v") if base else name.replace(".", "/") + ".v"
                if os.path.exists(os.path.join(COQ, cand)):
                    todo.append(cand)
        for m in re.finditer(r"Require\s+(?:Import\s+|Export\s+)?((?:ZV\.[A-Za-z0-9_.]+\s*)+)\.", txt):
            for name in m.group(1).split():
                cand = name[3:].replace(".", "/") + ".v"
                if os.path.exists(os.path.join(COQ, cand)):
                    todo.append(cand)
        for m in re.finditer(r"\bZV\.([A-Za-z0-9_]+)\.([A-Za-z0-9_]+)\.", txt):   # qualified uses like ZV.Gen.Gen_Tables.x
            cand = "%s/%s.v" % (m.group(1), m.group(2))
            if os.path.exists(os.path.join(COQ, cand)):
                todo.append(cand)
    return seen


def lint_coq(scope=None):
    """forbidden-token scan.  scope=None: the whole development (setup, final audit);
    scope=set of relative .v paths: only those files (a property's theorem file and its transitive dependencies)."""
    bad = []
    for root, _, files in os.walk(COQ):
        for fn in files:
            if fn.endswith(".v"):
                p = os.path.join(root, fn)
                if scope is not None and os.path.relpath(p, COQ) not in scope:
                    continue
                txt = open(p).read()
                txt_nc = strip_coq_comments(txt)
                for m in FORBIDDEN.finditer(txt_nc):
                    bad.append("%s: %s" % (os.path.relpath(p, VERIF), m.group(0)))
    for fn in ("_CoqProject",):
        p = os.path.join(COQ, fn)
        if os.path.exists(p):
            for m in FORBIDDEN.finditer(open(p).read()):
                bad.append("%s: %s" % (fn, m.group(0)))
    return bad


def strip_coq_comments(txt):
    out = []
    depth = 0
    i = 0
    n = len(txt)
    while i < n:
        if txt.startswith("(*", i):
            depth += 1
            i += 2
        elif txt.startswith("*)", i) and depth > 0:
            depth -= 1
            i += 2
        else:
            if depth == 0:
                out.append(txt[i])
            elif txt[i] == "\n":
                out.append("\n")
            i += 1
    return "".join(out)


def coq_project():
    """(Re)generate _CoqProject and the Makefile from the directory listing."""
    os.makedirs(os.path.join(COQ, "Extract", "out"), exist_ok=True)
    vs = []
    for root, dirs, files in os.walk(COQ):
        dirs.sort()
        for fn in sorted(files):
            if fn.endswith(".v"):
                vs.append(os.path.relpath(os.path.join(root, fn), COQ))
    txt = "-Q . ZV\n-arg -w -arg -notation-overridden,-deprecated-hint-without-locality,-deprecated-instance-without-locality\n" + "\n".join(vs) + "\n"
    ch = write_if_changed(os.path.join(COQ, "_CoqProject"), txt)
    if ch or not os.path.exists(os.path.join(COQ, "Makefile")):
        sh(["coq_makefile", "-f", "_CoqProject", "-o", "Makefile"], cwd=COQ, check=True)


def coq_make(targets, timeout=1500):
    """make -k the given .vo targets (relative to coq/). Returns (ok, output)."""
    with Lock("coq"):
        coq_project()
        env = dict(os.environ)
        env["TIMED"] = ""
        rc, out, err = sh(["timeout", str(timeout), "make", "-k", "-j%d" % NCPU] + list(targets), cwd=COQ, env=env)
    return rc == 0, out + err


def coq_errors(output):
    """Extract (file, line, message) of each Coq error in make output."""
    res = []
    for m in re.finditer(r'File "\./?([^"]+)", line (\d+), characters [\d-]+:\s*\nError:([^\n]*(?:\n(?!File|make|COQC|coqc)[^\n]*)*)', output):
        res.append((m.group(1), int(m.group(2)), m.group(3).strip()[:600]))
    return res


def enclosing_lemma(vfile, line):
    try:
        lines = open(os.path.join(COQ, vfile)).read().split("\n")
    except OSError:
        return "?"
    for i in range(min(line, len(lines)) - 1, -1, -1):
        m = re.match(r"\s*(?:Local\s+|Global\s+)?(Lemma|Theorem|Corollary|Example|Fact|Remark|Definition|Fixpoint|Proposition)\s+([A-Za-z0-9_']+)", lines[i])
        if m:
            return m.group(2)
    return "?"


def check_props_file(pid, timeout=900):
    """Compile coq/Props/Properties_<pid>.v (after its deps) and parse Print Assumptions.
    Returns dict(obligations=[names], discharged=[names], assumptions={name: text}, broken=[(what, detail)], log=str)."""
    rel = "Props/Properties_%s.v" % pid
    path = os.path.join(COQ, rel)
    src = strip_coq_comments(open(path).read())
    thms = re.findall(r"^\s*Theorem\s+([A-Za-z0-9_']+)", src, re.M)
    res = dict(obligations=thms, discharged=[], assumptions={}, broken=[], log="")
    ok, out = coq_make([rel + "o"], timeout=timeout)
    res["log"] = out[-20000:]
    if not ok:
        errs = coq_errors(out)
        if not errs:
            res["broken"].append(("build", out[-1500:]))
        for f, ln, msg in errs:
            res["broken"].append(("%s:%d %s" % (f, ln, enclosing_lemma(f, ln)), msg))
        return res
    # The theorem file itself is tiny; re-run coqc on it to capture Print Assumptions output.
    with Lock("coq"):
        rc, o, e = sh(["timeout", "600", "coqc", "-Q", ".", "ZV", "-w", "-notation-overridden", rel], cwd=COQ)
    res["log"] += o[-8000:] + e[-4000:]
    if rc != 0:
        res["broken"].append((rel, (o + e)[-1500:]))
        return res
    # Print Assumptions blocks appear in order
    blocks = re.split(r"(?=^Closed under the global context|^Axioms:)", o, flags=re.M)
    blocks = [b.strip() for b in blocks if b.strip().startswith(("Closed under", "Axioms:"))]
    prints = re.findall(r"Print\s+Assumptions\s+([A-Za-z0-9_']+)", src)
    for name, b in zip(prints, blocks):
        res["assumptions"][name] = b
    for t in thms:
        if t in res["assumptions"]:
            a = res["assumptions"][t]
            if a.startswith("Closed under") or allowed_axioms(a):
                res["discharged"].append(t)
            else:
                res["broken"].append((t, "depends on axioms outside the allow-list: " + a[:500]))
        else:
            res["broken"].append((t, "no Print Assumptions output for this theorem"))
    return res


ALLOWED_AXIOMS = (
    "functional_extensionality_dep", "proof_irrelevance", "classic", "eq_rect_eq", "JMeq_eq",
    "propositional_extensionality", "constructive_indefinite_description", "constructive_definite_description",
    # primitive ints show up as "axioms" in Print Assumptions but are kernel primitives
    "Uint63", "PrimInt63", "PrimFloat", "PArray",
)


def allowed_axioms(text):
    names = re.findall(r"^([A-Za-z0-9_.']+)\s*:", text, re.M)
    return all(any(a in n for a in ALLOWED_AXIOMS) for n in names)


# --------------------------------------------------------------------------
# OCaml extraction

def build_extracted(name, extract_v, driver_ml, timeout=900):
    """extract_v: path (relative to coq/) of a .v file which, when compiled, writes <name>.ml/.mli into coq/Extract/out.
    driver_ml: path relative to ml/.  Returns path of the native executable (cached on the hash of the extracted code)."""
    ok, out = coq_make([extract_v + "o"], timeout=timeout)
    if not ok:
        raise RuntimeError("extraction build failed:\n" + out[-3000:])
    mld = os.path.join(COQ, "Extract", "out")
    ml, mli = os.path.join(mld, name + ".ml"), os.path.join(mld, name + ".mli")
    drv = os.path.join(ML, driver_ml)
    h = hashlib.sha256()
    for p in (ml, mli, drv):
        h.update(open(p, "rb").read())
    key = h.hexdigest()[:16]
    outdir = os.path.join(BUILD, "ml", name + "-" + os.path.basename(driver_ml))
    exe = os.path.join(outdir, "run-" + key)
    with Lock("ml-" + name):
        if os.path.exists(exe):
            return exe
        shutil.rmtree(outdir, ignore_errors=True)
        os.makedirs(outdir)
        for p in (ml, mli, drv):
            shutil.copy(p, outdir)
        cmd = ["ocamlfind", "ocamlopt", "-O3" if False else "-inline", "100", "-w", "-a", "-package", "str", "-linkpkg",
               name + ".mli", name + ".ml", os.path.basename(drv), "-o", exe]
        rc, o, e = sh(cmd, cwd=outdir)
        if rc != 0:
            raise RuntimeError("ocaml build failed: %s\n%s" % (" ".join(cmd), (o + e)[-3000:]))
    return exe


# --------------------------------------------------------------------------
# verdicts, replay files, evidence, known findings

def known_findings():
    p = os.path.join(VERIF, "known_findings.json")
    try:
        return json.load(open(p))
    except OSError:
        return {"known": [], "fixed": []}


class Ctx:
    """Per-run context handed to a property's run(ctx)."""

    def __init__(self, pid, tier, seed):
        self.pid, self.tier, self.seed = pid, tier, seed
        self.t0 = time.time()
        self.violations = []
        self.known_hits = []
        self.cov = dict(evaluations=0, distinct_nontrivial=0, rule="", samples=[],
                        obligations=0, discharged=0, checker_cmd="", trusted_base=[],
                        traces_validated_against_impl=0)
        self.assumptions = []
        self.notes = {}
        self._distinct = set()
        self.quick = tier == "quick"
        os.makedirs(REPLAY, exist_ok=True)
        self.scratch = os.path.join(BUILD, "scratch", pid)
        shutil.rmtree(self.scratch, ignore_errors=True)
        os.makedirs(self.scratch, exist_ok=True)

    # -- counting
    def count(self, signature=None, nontrivial=True, n=1):
        self.cov["evaluations"] += n
        if signature is not None and nontrivial and signature not in self._distinct:
            self._distinct.add(signature)
            self.cov["distinct_nontrivial"] = len(self._distinct)

    def sample(self, s, maxn=8):
        if len(self.cov["samples"]) < maxn:
            self.cov["samples"].append(s)

    # -- proof step
    def prove(self):
        self.proof = None      # proof_verdict() must not crash when the lint below stops the proof step
        bad = lint_coq(coq_deps("Props/Properties_%s.v" % self.pid))
        if bad:
            self.violation(dict(kind="lint", detail=bad[:20]), no_input=True,
                           what="forbidden token in the Coq development: " + "; ".join(bad[:5]))
            return None
        r = check_props_file(self.pid)
        self.cov["obligations"] = len(r["obligations"])
        self.cov["discharged"] = len(r["discharged"])
        self.cov["checker_cmd"] = ("make -C coq -k Props/Properties_%s.vo (full .vo build via coq_makefile) ; "
                                   "coqc -Q . ZV Props/Properties_%s.v (Print Assumptions capture)" % (self.pid, self.pid))
        tb = ["Coq 8.16.1 kernel (coqc; vm_compute used for finite sweeps; no native_compute)",
              "OCaml extraction (ExtrOcamlBasic directives only) + ocamlfind ocamlopt 4.13.1 for running the model",
              "harness/dump_consts.c + gcc: regenerated constants in coq/Gen",
              "correspondence harness (C + python) - differential test, validates the model against the code"]
        for t in r["obligations"]:
            a = r["assumptions"].get(t)
            if a is not None:
                tb.append("Print Assumptions %s: %s" % (t, " ".join(a.split())[:400]))
        self.cov["trusted_base"] = tb
        self.proof = r
        return r

    # -- verdicts
    def violation(self, replay, what="", no_input=False, key=None):
        """Record a violation.  key: identifier matched against known_findings.json."""
        kf = known_findings()
        for k in kf.get("known", []):
            if k.get("property") == self.pid and key is not None and k.get("key") == key:
                if key not in [h[0] for h in self.known_hits]:
                    self.known_hits.append((key, k.get("what", what)))
                return False
        n = len(self.violations) + 1
        path = os.path.join(REPLAY, "%s-%d.json" % (self.pid, n))
        obj = dict(property=self.pid, tier=self.tier, seed=self.seed, what=what,
                   no_failing_input_found=bool(no_input), replay=replay,
                   replay_cmd="./check %s --replay %s" % (self.pid, path))
        with open(path, "w") as f:
            json.dump(obj, f, indent=1, default=str)
        self.violations.append((path, no_input, what))
        log("VIOLATION candidate:", what[:300])
        return True

    def finish(self, level="proof"):
        for key, what in self.known_hits:
            print("KNOWN-FINDING: property=%s %s" % (self.pid, what))
        seen = set()
        for path, no_input, what in self.violations:
            if path in seen:
                continue
            seen.add(path)
            print("VIOLATION property=%s replay=%s%s" % (self.pid, path, " no-failing-input-found" if no_input else ""))
        ev = dict(property_id=self.pid, tier=self.tier, seed=self.seed, level=level,
                  coverage=self.cov, assumptions=self.assumptions, wall_s=round(time.time() - self.t0, 2),
                  violations=len(self.violations))
        if self.notes:
            ev["coverage"]["notes"] = self.notes
        if not self.cov["samples"]:
            self.cov["samples"] = ["(no case was run)"]
        os.makedirs(EVID, exist_ok=True)
        with open(os.path.join(EVID, self.pid + ".json"), "w") as f:
            json.dump(ev, f, indent=1, default=str)
        sys.stdout.flush()
        return 1 if self.violations else 0

    # -- proof verdict helper
    def proof_verdict(self, search=None):
        """After prove(): if some obligation is broken, call search(broken) -> list of (replay, what) concrete
        failing inputs; report them, or no-failing-input-found naming the theorem."""
        r = self.proof
        if r is None:
            return
        if not r["broken"] and len(r["discharged"]) == len(r["obligations"]):
            return
        found = []
        if search is not None:
            try:
                found = search(r["broken"]) or []
            except Exception as e:  # the search must never mask the broken proof
                log("search failed:", repr(e))
        if found:
            for replay, what in found:
                self.violation(replay, what=what)
        else:
            names = "; ".join("%s" % b[0] for b in r["broken"][:6])
            self.violation(dict(kind="proof-broken", theorems_or_lemmas=[b[0] for b in r["broken"]],
                                detail=[b[1] for b in r["broken"]][:6]),
                           what="proof obligation no longer checks: " + names, no_input=True)
