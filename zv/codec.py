"""Shared helpers for the codec-family checks (C01, C02, C04, C05, C08, C09, C10, C17):
batch runners for harness/zv_codec.c (the real libzstd rebuilt from /repo) and for the extracted
reference decoder R, plus input / parameter generators.  All randomness comes from the caller's Random."""
import os
import re
import subprocess
from concurrent.futures import ThreadPoolExecutor

from . import core

# ---- parameter ids (lib/zstd.h) ----
P = dict(level=100, windowLog=101, hashLog=102, chainLog=103, searchLog=104, minMatch=105, targetLength=106,
         strategy=107, targetCBlockSize=130, ldm=160, ldmHashLog=161, ldmMinMatch=162, ldmBucketSizeLog=163,
         ldmHashRateLog=164, contentSize=200, checksum=201, dictID=202, nbWorkers=400, jobSize=401, overlapLog=402,
         rsyncable=500, format=10, forceMaxWindow=1000, forceAttachDict=1001, literalMode=1002, srcSizeHint=1004,
         dedicatedDictSearch=1005, stableIn=1006, stableOut=1007, blockDelimiters=1008, validateSequences=1009,
         blockSplitter=1010, rowMatchFinder=1011, deterministicRefPrefix=1012, prefetchCDict=1013,
         seqProducerFallback=1014, maxBlockSize=1015, extRepSearch=1016)
D = dict(windowLogMax=100, format=1000, stableOut=1001, forceIgnoreChecksum=1002, refMultipleDDicts=1003,
         disableHufAsm=1004, maxBlockSize=1005)


def params_str(d):
    if not d:
        return "-"
    return ",".join("%d:%d" % (P[k] if isinstance(k, str) else k, v) for k, v in d.items())


def dparams_str(d):
    if not d:
        return "-"
    return ",".join("%d:%d" % (D[k] if isinstance(k, str) else k, v) for k, v in d.items())


def hx(b):
    return b.hex() if b else "-"


def unhx(s):
    return b"" if s == "-" else bytes.fromhex(s)


def _run_chunks(exe, lines, nproc, timeout):
    if not lines:
        return {}, []
    nproc = max(1, min(nproc, len(lines)))
    chunks = [lines[i::nproc] for i in range(nproc)]

    def one(ch):
        p = subprocess.run([exe], input=("\n".join(ch) + "\n").encode(), stdout=subprocess.PIPE,
                           stderr=subprocess.PIPE, timeout=timeout)
        out = p.stdout.decode("utf-8", "replace").split("\n")
        return p.returncode, [l for l in out if l], p.stderr.decode("utf-8", "replace")
    with ThreadPoolExecutor(nproc) as ex:
        res = list(ex.map(one, chunks))
    out = {}
    errs = []
    for rc, ls, err in res:
        if rc != 0:
            errs.append((rc, err[-2000:]))
        for l in ls:
            i = l.find(" ")
            out[l[:i]] = l[i + 1:]
    return out, errs


class Codec:
    """Runs the real library (zv_codec) and the model (extracted R) on batches of cases keyed by string ids."""

    def __init__(self, ctx, variant="o1"):
        self.ctx = ctx
        self.variant = variant
        self.exe = core.build_harness("zv_codec", ["zv_codec.c"], variant=variant)
        self._r = None

    def r_exe(self):
        if self._r is None:
            self._r = core.build_extracted("rdecoder", "Extract/Extract_R.v", "r_driver.ml")
        return self._r

    def impl(self, lines, nproc=core.NCPU, timeout=1200):
        """lines: full command lines for zv_codec ('C id ...').  Returns ({id: rest-of-line}, errors)."""
        out, errs = _run_chunks(self.exe, lines, nproc, timeout)
        return out, errs

    def model(self, cases, nproc=core.NCPU, timeout=1800):
        """cases: list of (id, flags, dict_bytes_or_None, frame_bytes). Returns {id: ('OK', content, trace) | ('ERR', cls, site)}."""
        lines = ["%s %s %s %s" % (i, fl or "-", hx(d) if d else "-", hx(f)) for i, fl, d, f in cases]
        out, errs = _run_chunks(self.r_exe(), lines, nproc, timeout)
        if errs:
            raise RuntimeError("reference decoder crashed: %r" % (errs[:2],))
        res = {}
        for i, rest in out.items():
            t = rest.split(" ")
            if t[0] == "OK":
                res[i] = ("OK", unhx(t[1]), t[2] if len(t) > 2 else "")
            else:
                res[i] = ("ERR", t[1], int(t[2]) if len(t) > 2 else -1)
        return res


def parse_ok(rest):
    """'OK hex [extra]' | 'ERR name' -> ('OK', bytes, extra) | ('ERR', name, '')"""
    t = rest.split(" ")
    if t[0] == "OK":
        return ("OK", unhx(t[1]) if len(t) > 1 else b"", " ".join(t[2:]))
    return ("ERR", t[1] if len(t) > 1 else "?", "")


# ---- trace parsing (output of ml/r_driver.ml) ----
_FR = re.compile(r"F\{w=(\d+),ss=(\d),ck=(\d),did=(\d+),fcs=(\d+|-),hs=(\d+),desc=(\d+),cs=(\d+),n=(\d+),sum=(\d+|-),B\[([^\]]*)\]\}|S\{(\d+)\}")


def parse_trace(tr):
    """-> list of frames: dict(kind='zstd', window, single, checksum, dictid, fcs, hsize, desc, csize, n, blocks=[...]) or dict(kind='skip', size)"""
    frames = []
    for m in _FR.finditer(tr):
        if m.group(12) is not None:
            frames.append(dict(kind="skip", size=int(m.group(12))))
            continue
        blocks = []
        for b in m.group(11).split(";"):
            if not b:
                continue
            seqs = None
            if "(" in b:
                b, s = b.split("(", 1)
                seqs = [tuple(int(x) for x in q.split(":")) for q in s.rstrip(")").split(",") if q]
            v = [int(x) for x in b.split("/")]
            blocks.append(dict(type=v[0], last=v[1], csize=v[2], rsize=v[3], litmode=v[4], litsize=v[5],
                               modes=v[6], nseq=v[7], nbseq_bytes=v[8] if len(v) > 8 else 0,
                               lasttable=v[9] if len(v) > 9 else 0, seqs=seqs))
        frames.append(dict(kind="zstd", window=int(m.group(1)), single=int(m.group(2)), checksum=int(m.group(3)),
                           dictid=int(m.group(4)), fcs=None if m.group(5) == "-" else int(m.group(5)),
                           hsize=int(m.group(6)), desc=int(m.group(7)), csize=int(m.group(8)), n=int(m.group(9)),
                           sum=None if m.group(10) == "-" else int(m.group(10)), blocks=blocks))
    return frames


def trace_signature(frames):
    """canonical shape of a decoded stream: which decoder branches it exercised"""
    sig = []
    for f in frames:
        if f["kind"] == "skip":
            sig.append("S")
            continue
        bs = set()
        for b in f["blocks"]:
            bs.add((b["type"], b["litmode"], b["modes"], min(b["nseq"], 1) + (b["nseq"] > 127) + (b["nseq"] >= 32512)))
        sig.append((f["single"], f["checksum"], f["fcs"] is not None and (0 if f["fcs"] < 256 else 1 if f["fcs"] < 65792 else 2),
                    f["dictid"] != 0, len(f["blocks"]) > 1, tuple(sorted(bs))))
    return tuple(sig)


# ---- input generators ----
def gen_input(rng, kind, size):
    if size == 0:
        return b""
    if kind == "zeros":
        return bytes(size)
    if kind == "rle":
        return bytes([rng.randrange(256)]) * size
    if kind == "random":
        return rng.randbytes(size)
    if kind == "period":
        k = rng.choice([1, 2, 3, 4, 5, 6, 7, 8, 9, 15, 16, 17, 31, 50, 100, 255, 1000])
        pat = rng.randbytes(k)
        return (pat * (size // k + 1))[:size]
    if kind == "text":
        words = [bytes(rng.choice(b"abcdefghijklmnopqrstuvwxyz") for _ in range(rng.randint(1, 9))) for _ in range(rng.randint(5, 200))]
        out = bytearray()
        while len(out) < size:
            out += rng.choice(words) + rng.choice([b" ", b" ", b" ", b", ", b".\n"])
        return bytes(out[:size])
    if kind == "lowent":
        alpha = rng.randbytes(rng.choice([2, 3, 4, 8, 16]))
        w = [rng.random() ** 3 for _ in alpha]
        return bytes(rng.choices(alpha, weights=w, k=size))
    if kind == "longdist":
        chunk = rng.randbytes(rng.choice([8, 32, 100, 500]))
        out = bytearray()
        while len(out) < size:
            out += rng.randbytes(rng.choice([10, 100, 1000, 5000, 20000]))
            out += chunk
        return bytes(out[:size])
    if kind == "mixed":
        out = bytearray()
        while len(out) < size:
            k = rng.choice(["zeros", "rle", "random", "period", "text", "lowent"])
            out += gen_input(rng, k, rng.choice([1, 7, 100, 1000, 8192, 20000]))
        return bytes(out[:size])
    if kind == "rawlits":    # exactly `size` bytes without any repeat, then a copy of the first 64: one sequence, `size` literals
        body = gen_input(rng, "debruijn", size + 8)[8:]     # skip the leading run of the de Bruijn sequence
        return body * 3
    if kind == "debruijn":   # every 4-gram unique over a 16-letter alphabet: no match of length >= 4 exists, but 4 bits/byte for Huffman
        k, n = 16, 4
        a = [0] * (k * n)
        seq = []

        def db(t, p_):
            if len(seq) > size + 8:
                return
            if t > n:
                if n % p_ == 0:
                    seq.extend(a[1:p_ + 1])
            else:
                a[t] = a[t - p_]
                db(t + 1, p_)
                for j in range(a[t - p_] + 1, k):
                    a[t] = j
                    db(t + 1, t)
        import sys
        sys.setrecursionlimit(10000)
        db(1, 1)
        alpha = bytes(rng.sample(range(256), 16))
        out = bytes(alpha[c] for c in seq)
        while len(out) < size:
            out += out
        return out[:size]
    if kind == "splitraw":   # text | noise with sparse copies (last 2 KB: fixed distances) | dense copies at the same distances | text
        D = [257, 1031, 389]
        out = bytearray(gen_input(rng, "text", size))

        def noisy(off, n, gap, mlen, fixed_all):
            i = 0
            while i < n:
                g = gap // 2 + rng.randrange(gap)
                seg = rng.randbytes(min(g, n - i))
                out[off + i:off + i + len(seg)] = seg
                i += len(seg)
                if i + mlen + 8 < n and off + i > 2000:
                    fx = fixed_all or i + 2000 > n
                    ml = 6 if (fx and mlen < 6) else mlen
                    d = rng.choice(D) if fx else 100 + rng.randrange(1500)
                    for j in range(ml):
                        out[off + i + j] = out[off + i + j - d]
                    i += ml
        if size >= 200000:
            noisy(80000, 131072 - 80000, 200, 3, False)
            noisy(131072, 60000, 24, 40, True)
        return bytes(out[:size])
    if kind == "longlen":    # a literal run or a match longer than 65535 at the head, then compressible data whose statistics change
        raw = min(size, rng.choice([65536, 66000, 70000, 90000]))
        if rng.random() < 0.5:
            head = bytes([rng.randrange(256)]) * raw
        else:
            head = bytes(((i >> 1) if (i & 1) else (i >> 9)) & 255 for i in range(raw))
        rest = size - raw
        a = gen_input(rng, "text", rest // 2)
        ctr, rec = 0, bytearray()
        while len(rec) < rest - rest // 2:
            ctr += 1 + rng.randrange(4)
            rec += ctr.to_bytes(4, "little") + bytes(rng.choice(b"\x00\x01\x02\xff") for _ in range(12))
        return head + a + bytes(rec[:rest - rest // 2])
    if kind == "matchlead":  # block 1: text ending with a few tiles of noise; every later block STARTS with ~1500 of those tiles in
        #              random order (hundreds of consecutive sequences without a literal), then fresh text: with
        #              ZSTD_c_targetCBlockSize the first sub-block carries no literals, later ones need the block's Huffman table
        piece = rng.choice([24, 32, 32, 40])
        nt = rng.choice([6, 8, 12])
        first = min(size, 131072)
        b1 = gen_input(rng, "text", max(0, first - nt * piece)) + rng.randbytes(min(first, nt * piece))
        out = bytearray(b1[:first])
        tiles = [bytes(out[first - (k + 1) * piece:first - k * piece]) for k in range(nt)] if first >= nt * piece else [b"ab"]
        while len(out) < size:
            for _ in range(rng.choice([1200, 1500, 2000])):
                out += rng.choice(tiles)
            out += gen_input(rng, "text", 131072 - (len(out) % 131072))
        return bytes(out[:size])
    if kind == "nearrle":    # runs of one byte with a single deviation inside the last 32 bytes of a block / of the input
        a = rng.randrange(256)
        out = bytearray([a]) * size
        ends = [e for e in range(131072, size + 1, 131072)] + [size]
        for e in ends:
            if e > 131072 and rng.random() < 0.8:       # not in the first block (never emitted as RLE)
                out[e - 1 - rng.randrange(min(32, e))] = (a + 1 + rng.randrange(255)) & 255
        return bytes(out)
    if kind == "hufrepeat":  # block 1: small alphabet + a few occurrences of a large byte; later blocks: long copies of block 1
        #              separated by a few literals whose largest byte is new but below that large byte (Huffman table re-use)
        lo = rng.randrange(40, 90)
        alpha = bytes(range(lo, lo + 8))
        big = lo + 40 + rng.randrange(20)
        new = lo + 10 + rng.randrange(20)
        b1 = bytearray(rng.choice(alpha) for _ in range(min(size, 131072)))
        for _ in range(rng.choice([1, 3, 8])):
            b1[rng.randrange(len(b1))] = big
        out = bytearray(b1)
        chunk = rng.choice([400, 500, 700])
        while len(out) < size:
            st = rng.randrange(0, len(b1) - chunk)
            out += b1[st:st + chunk]
            out += bytes([rng.choice(alpha), rng.choice(alpha), new if rng.random() < 0.5 else rng.choice(alpha)])
        return bytes(out[:size])
    if kind == "selfcopy":   # repeated self-references with small edits: repcode heavy
        out = bytearray(rng.randbytes(rng.choice([16, 64, 300])))
        while len(out) < size:
            off = rng.randint(1, min(len(out), rng.choice([4, 16, 300, 70000])))
            ln = rng.randint(3, 300)
            for _ in range(ln):
                out.append(out[-off])
            if rng.random() < 0.7:
                out += rng.randbytes(rng.choice([1, 1, 2, 5]))
        return bytes(out[:size])
    if kind == "rep3":       # matches cycling through 3-4 fixed offsets: exercises all three repeat-offset slots
        offs = rng.sample([5, 9, 17, 37, 64, 100, 211, 400, 900, 1500], rng.choice([3, 3, 4]))
        out = bytearray(rng.randbytes(max(offs) + 8))
        while len(out) < size:
            off = rng.choice(offs)
            for _ in range(rng.randint(3, 14)):
                out.append(out[-off])
            r = rng.random()
            if r < 0.5:
                out += rng.randbytes(1)
            elif r < 0.7:
                out += rng.randbytes(2)
        return bytes(out[:size])
    raise ValueError(kind)


KINDS = ["zeros", "rle", "random", "period", "text", "lowent", "longdist", "mixed", "selfcopy", "rep3", "rep3"]
SIZES_SMALL = [0, 1, 2, 3, 4, 5, 7, 8, 9, 15, 16, 17, 31, 32, 33, 63, 64, 65, 100, 127, 128, 129, 255, 256, 257, 300,
               511, 512, 513, 1000, 1023, 1024, 1025, 2000, 4095, 4096, 4097, 5000]
SIZES_MED = [8191, 8192, 10000, 16384, 20000, 32768, 40000, 65535, 65536, 65537, 65791, 65792, 65793]
SIZES_BIG = [100000, 131071, 131072, 131073, 150000, 200000, 262144, 262145]


def gen_params(rng, size_hint=0, mt=False):
    """a random accepted parameter vector for ZSTD_compress2 (dict name -> value)"""
    p = {}
    r = rng.random()
    if r < 0.55:
        p["level"] = rng.choice([-131072, -1000, -50, -5, -1, 1, 1, 2, 3, 3, 4, 5, 6, 7, 8, 9, 10, 12, 13, 15, 16, 17, 18, 19, 20, 22])
    else:
        st = rng.randint(1, 9)
        p["strategy"] = st
        p["level"] = rng.choice([1, 3, 6, 12, 19])
    if rng.random() < 0.5:
        p["windowLog"] = rng.choice([10, 10, 10, 11, 12, 13, 14, 16, 17, 18, 20, 23])
    if rng.random() < 0.25:
        p["hashLog"] = rng.choice([6, 7, 10, 14, 17, 20])
    if rng.random() < 0.25:
        p["chainLog"] = rng.choice([6, 7, 10, 14, 17, 20])
    if rng.random() < 0.25:
        p["searchLog"] = rng.choice([1, 2, 4, 5, 6, 7, 9])
    if rng.random() < 0.4:
        p["minMatch"] = rng.choice([3, 3, 4, 5, 6, 7])
    if rng.random() < 0.2:
        p["targetLength"] = rng.choice([0, 1, 4, 16, 100, 999, 4096, 131072])
    if rng.random() < 0.25:
        p["ldm"] = 1
        if rng.random() < 0.5:
            p["ldmMinMatch"] = rng.choice([4, 16, 64, 4096])
        if rng.random() < 0.3:
            p["ldmHashLog"] = rng.choice([6, 10, 20])
        if rng.random() < 0.3:
            p["ldmBucketSizeLog"] = rng.choice([1, 3, 8])
        if rng.random() < 0.3:
            p["ldmHashRateLog"] = rng.choice([0, 4, 7])
    if rng.random() < 0.3:
        p["blockSplitter"] = rng.choice([1, 2])
    if rng.random() < 0.3:
        p["rowMatchFinder"] = rng.choice([1, 2])
    if rng.random() < 0.2:
        p["targetCBlockSize"] = rng.choice([1340, 2000, 4000, 10000, 131072])
    if rng.random() < 0.2:
        p["maxBlockSize"] = rng.choice([1024, 1025, 4096, 10000, 65536, 131072])
    if rng.random() < 0.3:
        p["literalMode"] = rng.choice([1, 2])
    if rng.random() < 0.4:
        p["checksum"] = 1
    if rng.random() < 0.2:
        p["contentSize"] = 0
    if rng.random() < 0.1:
        p["format"] = 1
    if mt:
        p["nbWorkers"] = rng.choice([1, 2, 3, 4])
        if rng.random() < 0.7:
            p["jobSize"] = rng.choice([1, 512 * 1024, 1 << 20])   # clamped up to the minimum
        if rng.random() < 0.5:
            p["overlapLog"] = rng.randint(0, 9)
        if rng.random() < 0.3:
            p["rsyncable"] = 1
    return p
